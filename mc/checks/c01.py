"""C01 - composeinfo survives a write/read cycle unchanged.

Spec-space BFS (deviation bound k) over compose descriptions; at every state a fresh real object is
built through the public API and put through write -> read -> write; the re-read object is compared
with the (normalised) spec, never only with another library output.  Every depth<=k state is also
reached from a re-loaded parent (non-initial start).
"""
import copy
import json
import os
import tempfile

from mc.build import ci as B
from mc.core import explorer
from mc.core.util import exc_name

ID = "C01"
LEVEL = "model_checking"
REQUIRED_OUTCOMES = ["cycle:ok", "reloaded-start:ok", "edit-after-write:ok", "file-cycle:ok", "has:depth3", "has:layered-product",
                     "has:dashed-top-uid", "has:label", "has:base-product"]


class Universe(object):
    def __init__(self, seed=0):
        self.seed = seed

    def seeds(self):
        return [(n, f()) for n, f in B.SEEDS]

    def edits(self, spec):
        return B.edits(spec, self.seed)

    apply = staticmethod(B.apply_spec)
    canon = staticmethod(B.canon)


def diff(a, b, path="", out=None, limit=6):
    out = [] if out is None else out
    if len(out) >= limit:
        return out
    if type(a) != type(b):
        out.append("%s: %r != %r" % (path, a, b))
    elif isinstance(a, dict):
        for k in sorted(set(a) | set(b)):
            if k not in a or k not in b:
                out.append("%s.%s: %s" % (path, k, "missing in observed" if k not in a else "unexpected in observed"))
            else:
                diff(a[k], b[k], "%s.%s" % (path, k), out, limit)
    elif isinstance(a, list):
        if len(a) != len(b):
            out.append("%s: length %d != %d" % (path, len(a), len(b)))
        else:
            for i, (x, y) in enumerate(zip(a, b)):
                diff(x, y, "%s[%d]" % (path, i), out, limit)
    elif a != b:
        out.append("%s: %r != %r" % (path, a, b))
    return out


def spec_of(case):
    spec = dict(B.SEEDS)[case["seed"]]()
    for e in case["edits"]:
        spec = B.apply_spec(spec, e)
    return spec


def oracle(spec, obj, via_file=False, doc_extras=False, used_reader_text=None):          # (ComposeInfo readers are single-use: a second loads() is refused)
    """Returns ("refused", why) or ("ok"/"bad", [problems])."""
    import productmd.composeinfo as pc
    problems = []
    try:
        text = obj.dumps()
    except (ValueError, TypeError) as exc:
        return "refused", ["dumps: %s" % exc_name(exc)]
    want = B.expected_observation(spec, obj.compose.id)
    back = pc.ComposeInfo()
    try:
        back.loads(text)
    except Exception as exc:                                            # noqa
        return "bad", ["the written file cannot be read back: %s: %s" % (exc_name(exc), str(exc)[:160])]
    d = diff(B.observe(back), want)
    if d:
        problems.append("re-read object differs from what was written (observed != expected): " + "; ".join(d))
    try:
        text2 = back.dumps()
        if text2 != text:
            problems.append("second write is not byte-identical")
    except Exception as exc:                                            # noqa
        problems.append("re-read object cannot be written: %s" % exc_name(exc))
    if via_file:
        tmp = tempfile.mkdtemp(prefix="c01-")
        try:
            p = os.path.join(tmp, "composeinfo.json")
            obj.dump(p)
            with open(p) as f:
                if f.read() != text:
                    problems.append("dump(path) wrote different bytes than dumps()")
            again = pc.ComposeInfo()
            again.load(p)
            if diff(B.observe(again), want):
                problems.append("load(path) object differs from what was written")
        except Exception as exc:                                        # noqa
            problems.append("file cycle raised %s" % exc_name(exc))
        finally:
            for fn in os.listdir(tmp):
                os.unlink(os.path.join(tmp, fn))
            os.rmdir(tmp)
    if doc_extras:
        doc = json.loads(text)
        doc["payload"]["release"]["type"] = doc["payload"]["release"]["type"].upper()
        up = pc.ComposeInfo()
        try:
            up.loads(json.dumps(doc))
            if diff(B.observe(up), want):
                problems.append("upper-cased release type does not load to the same object")
        except Exception as exc:                                        # noqa
            problems.append("upper-cased release type rejected: %s" % exc_name(exc))
    return ("bad" if problems else "ok"), problems


def eval_case(case):
    """case = {seed, edits, mode}: mode 'scratch' builds the whole spec; 'reloaded' builds the parent, writes and
    re-reads it, and applies the last edit to the re-read object; 'live' builds the parent, WRITES it (and queries it),
    applies the last edit to that same live object and writes again - whatever the first write left behind in the object
    (caches, normalised fields, a stamped header) must not show in the second file."""
    import productmd.composeinfo as pc
    spec = spec_of(case)
    shallow = len(case["edits"]) <= 1
    used_text = None
    try:
        if case["mode"] == "scratch":
            obj = B.build(spec)
        elif case["mode"] == "live":
            parent = spec_of({"seed": case["seed"], "edits": case["edits"][:-1]})
            try:
                obj = B.build(parent)
                used_text = obj.dumps()
            except (ValueError, TypeError) as exc:
                return {"status": "refused", "stage": "parent", "problems": ["the state before the edit is itself refused: %s" % exc_name(exc)]}
            obj.validate()
            obj.get_variants()
            [obj.get_variants(arch=a) for a in ("x86_64", "src")]
            str(obj)
            obj.create_compose_id()
            B.apply_obj(obj, case["edits"][-1], spec)
        else:
            parent = spec_of({"seed": case["seed"], "edits": case["edits"][:-1]})
            obj = pc.ComposeInfo()
            try:
                try:
                    parent_text = B.build(parent).dumps()
                except (ValueError, TypeError) as exc:
                    return {"status": "refused", "stage": "parent", "problems": ["the state before the edit is itself refused: %s" % exc_name(exc)]}
                obj.loads(parent_text)
            except (ValueError, TypeError):
                raise
            except Exception as exc:                                    # noqa
                return {"status": "bad", "problems": ["the parent's written file cannot be read back: %s" % exc_name(exc)]}
            # what the re-read parent holds is the parent AS WRITTEN: paths for architectures outside a variant's arch set and
            # empty paths were not stored (documented normalisation) and do not come back when a later edit adds the arch
            written = copy.deepcopy(parent)
            for v, _, _ in B.walk(written["variants"]):
                v["paths"] = {cat: {a: q for a, q in per.items() if q and a in v["arches"]} for cat, per in v["paths"].items()}
                v["paths"] = {cat: per for cat, per in v["paths"].items() if per}
            spec = B.apply_spec(written, case["edits"][-1])
            B.apply_obj(obj, case["edits"][-1], spec)
    except (ValueError, TypeError) as exc:
        return {"status": "refused", "problems": ["build: %s" % exc_name(exc)]}
    except (KeyError, IndexError, AttributeError) as exc:
        if case["mode"] in ("scratch", "live"):
            return {"status": "bad", "problems": ["the documented public API could not be used to build the description: %s: %s"
                                                  % (exc_name(exc), str(exc)[:120])]}
        return {"status": "bad", "problems": ["the re-read parent object does not hold what was written to it, the next "
                                              "edit cannot be applied: %s" % exc_name(exc)]}
    status, problems = oracle(spec, obj, via_file=shallow and case["mode"] == "scratch",
                              doc_extras=shallow and case["mode"] == "scratch", used_reader_text=used_text)
    return {"status": status, "problems": problems}


def bound(tier):
    return 1 if tier == "quick" else 2


def units(tier, seed):
    return [(u, tier, seed) for u in explorer.spec_units(Universe(seed), bound(tier))]


def run_unit(unit, acc):
    u, tier, seed = unit
    uni = Universe(seed)

    def visit(spec, trace, parent, last):
        scratch_status = None
        for mode in ("scratch", "reloaded", "live"):
            if mode != "scratch" and last is None:
                continue
            case = {"seed": trace[0], "edits": trace[1:], "mode": mode}
            o = eval_case(case)
            acc.ev()
            acc.trace()
            tag = {"scratch": "cycle", "reloaded": "reloaded-start", "live": "edit-after-write"}[mode]
            if mode == "scratch":
                scratch_status = o["status"]
            if o["status"] == "refused" and mode != "scratch" and scratch_status != "refused" and o.get("stage") != "parent":
                # the very same description is written when it is built from scratch: reached another way it must be writable too
                o = {"status": "bad", "problems": ["the description is written when built from scratch, but refused when reached through "
                                                    "%s: %s" % ("a re-read object" if mode == "reloaded" else "an object that had been written before", "; ".join(o["problems"]))]}
            if o["status"] == "refused":
                acc.outcome(tag + ":refused")
                acc.n["refused"] += 1
                continue
            if o["status"] == "bad":
                acc.violation(tag + ":" + (last[0] if last else "seed"), case, o,
                              "%s via %s: %s" % (trace, mode, "; ".join(o["problems"])[:700]))
                acc.outcome(tag + ":bad")
            else:
                acc.outcome(tag + ":ok")
            if len(trace) <= 2 and mode == "scratch":
                acc.outcome("file-cycle:ok")
        nodes = list(B.walk(spec["variants"]))
        if any(d == 3 for _, d, _ in nodes):
            acc.outcome("has:depth3")
        if any(v["type"] == "layered-product" for v, _, _ in nodes):
            acc.outcome("has:layered-product")
        if any("-" in v["uid"] and d == 1 for v, d, _ in nodes):
            acc.outcome("has:dashed-top-uid")
        if spec["compose"]["label"]:
            acc.outcome("has:label")
        if spec["base_product"]:
            acc.outcome("has:base-product")
        if len(nodes) > 1 or spec["base_product"] or spec["compose"]["label"] or any(v["paths"] for v, _, _ in nodes):
            acc.nontriv(B.canon(spec))
        if last is not None and last[0] in ("addvar", "label"):
            acc.sample({"seed": trace[0], "edits": trace[1:]}, limit=2)

    explorer.explore_unit(uni, u, bound(tier), acc, visit)


def replay(case):
    return eval_case(case)


KNOWN = {}


def describe(tier):
    return {
        "rule": "BFS over edit operations (set one release/base-product field; layered on/off; compose type x date x respin "
                "and label x final crossed completely; free-form or generated id; add a variant of any of the 4 types under "
                "any parent up to depth 3 with any arch subset; dashed top-level UID; set one of 14 path categories for one "
                "arch to a path / empty / foreign-arch value; all 14 at once) from 3 seeds (flat, depth-3 forest with "
                "layered-product grandchild, layered release with label).  Every state: build -> dumps -> loads -> observe == "
                "normalised spec -> dumps byte-identical; again starting from the re-loaded parent object.  Non-trivial: a state "
                "with more than one variant, a base product, a label or at least one path.",
        "bound": "deviation bound k = %d edits from a seed; forests <= 7 variants, depth <= 3" % bound(tier),
        "exhaustive": True,
        "model_binding": "the spec (plain data) is the reference model; every explored state is built on the real library and "
                         "its re-read observation is compared with the model (traces_validated_against_impl = comparisons made)",
        "assumptions": ["text alphabets are class representatives (ASCII, blanks, quote/backslash/newline, non-ASCII, empty)",
                        "a description the library refuses to write is outside the claim and only counted"],
    }
