"""C11 - the variant forest stays consistent and every variant is findable (history BFS, lockstep forest model).

Operations: target.add(candidate) for every target in the forest (or the top container) and every
candidate of a pool of valid variants and their invalid siblings, plus `reload` (write + read into a
fresh ComposeInfo).  The model's states are enumerated breadth first; from every state every
operation is replayed on a fresh real ComposeInfo in lockstep with the model.
"""
import itertools

from mc.build import ci as B
from mc.core.util import call

ID = "C11"
LEVEL = "model_checking"
REQUIRED_OUTCOMES = ["dump:refused-duplicate-uid", "add:accepted", "add:same-object-again", "refused:duplicate-id", "refused:foreign-arch",
                     "refused:foreign-arch-first-child", "refused:misaligned-uid", "refused:ancestor", "refused:ancestor-realigned",
                     "refused:top-level-under-other", "reload:ok", "state:depth3", "state:dashed-top", "query:filtered"]

# name -> (id, uid, type, arches)
CANDS = {
    "A":    ("A", "A", "variant", ("i386", "x86_64")),
    "B":    ("B", "B", "variant", ("x86_64",)),
    "Ax":   ("AX", "A-X", "variant", ("x86_64",)),                 # dashed top-level UID, childless; sorts between A and A-a
    "Ao":   ("o", "A-o", "optional", ("x86_64",)),
    "Ao2":  ("o", "A-o", "optional", ("x86_64",)),                 # a DIFFERENT object with the same id
    "Aa":   ("a", "A-a", "addon", ("i386", "x86_64")),
    "Aog":  ("g", "A-o-g", "layered-product", ("x86_64",)),        # grandchild
    "Aab":  ("b", "A-a-b", "variant", ("i386", "x86_64")),         # grandchild with ALL arches of the root (only a cycle check can refuse the root below it)
    "Bo":   ("o", "B-o", "variant", ("x86_64",)),
    "Bz":   ("z", "B-z", "addon", ("i386",)),                      # arch outside the parent's
    "By":   ("y", "B-y", "addon", ("i386", "x86_64")),             # one arch of the parent's, one outside (partial overlap)
    "Aoz":  ("z", "A-o-z", "addon", ("i386",)),                    # arch the parent A-o lacks (grandparent has it)
    "Xm":   ("m", "X-m", "addon", ("x86_64",)),                    # misaligned UID wherever it is added
    "Aq":   ("q", "Aq", "addon", ("x86_64",)),                     # UID that is right except for the missing dash (under A)
    "Ao3":  ("Ao", "A-o", "variant", ("x86_64",)),                 # dashed TOP-LEVEL UID equal to the UID of the child A-o
    "AA":   ("Aa", "Aa", "variant", ("x86_64",)),                  # plain top-level id that is the child UID A-a without its dash
}
ORDER = list(CANDS)
ARCH_FILTERS = [None, "x86_64", "i386", "ppc64", "src"]
TYPES = ["variant", "optional", "addon", "layered-product"]
TYPE_FILTERS = [None] + [[t] for t in TYPES] + [list(p) for p in itertools.combinations(TYPES, 2)]


# ---- model ----------------------------------------------------------------------------------------
# state = (frozenset of (position, cand name, orig flag), )   position = tuple of ids from the top

def m_nodes(state):
    return {pos: (name, orig) for pos, name, orig in state}


def m_uid(nodes, pos):
    return CANDS[nodes[pos][0]][1]


def m_dup_uids(state):
    uids = [CANDS[name][1] for _, name, _ in state]
    return {u for u in uids if uids.count(u) > 1}


def m_step(state, op):
    """-> (state', expected, reason).  expected: 'ok' | 'ValueError' | None (operation outside the explored domain)."""
    if op[0] == "reload":
        if m_dup_uids(state):
            return state, "ValueError", "dump-refuses-duplicate-uid"      # two variants with one UID cannot be written
        return frozenset((pos, name, False) for pos, name, _ in state), "ok", "reload"
    _, tpos, cname = op
    tpos = tuple(tpos)
    nodes = m_nodes(state)
    if tpos and tpos not in nodes:
        return state, None, "no such target"
    if op[0] == "add-as":
        # an in-forest variant whose UID the caller has RE-ALIGNED to a target at or below its own position: the UID rule is
        # satisfied, what must refuse it is the cycle (the variant would become its own ancestor)
        return state, "ValueError", "ancestor-realigned"
    if len(tpos) == 1 and "-" in m_uid(nodes, tpos):
        return state, None, "dashed top-level UIDs occur only on childless variants (domain of the property)"
    cid, cuid, ctype, carches = CANDS[cname]
    where = [pos for pos, (name, orig) in nodes.items() if name == cname and orig]
    slot = tpos + (cid,)
    if where:
        p = where[0]
        if p == slot:
            return state, "ok", "same-object-again"
        if not tpos:
            return state, None, "in-forest object added to the top container (outside the explored domain)"
        reason = "ancestor" if tpos[:len(p)] == p else ("top-level-under-other" if len(p) == 1 else "misaligned-uid")
        return state, "ValueError", reason
    # a free object
    if not tpos:
        if cuid.replace("-", "") != cid:
            return state, "ValueError", "misaligned-uid"
        if slot in nodes:
            return state, "ValueError", "duplicate-id"
        return state | {(slot, cname, True)}, "ok", "accepted"
    tuid = m_uid(nodes, tpos)
    if cuid != "%s-%s" % (tuid, cid):
        return state, "ValueError", "misaligned-uid"
    tarches = CANDS[nodes[tpos][0]][3]
    if not set(carches) <= set(tarches):
        first = not any(pos[:-1] == tpos for pos in nodes)
        return state, "ValueError", "foreign-arch-first-child" if first else "foreign-arch"
    if slot in nodes:
        return state, "ValueError", "duplicate-id"
    return state | {(slot, cname, True)}, "ok", "accepted"


def m_ops(state):
    nodes = m_nodes(state)
    targets = [()] + sorted(nodes)
    ops = [["add", list(t), c] for t in targets for c in ORDER]
    for pos, (name, orig) in sorted(nodes.items()):
        if orig and not (len(pos) == 1 and "-" in CANDS[name][1]):
            for t in sorted(nodes):
                if t[:len(pos)] == pos and not (len(t) == 1 and "-" in m_uid(nodes, t)):
                    ops.append(["add-as", list(t), name])
    if nodes:
        ops.append(["reload"])
    return ops


# ---- implementation side --------------------------------------------------------------------------

def fresh_ci():
    B.build(B.seed_two_level())                   # an unrelated compose built first: nothing of it may show up in the new one
    ci = B.build(dict(B.seed_flat(), variants=[]))
    return ci


def mk(ci, cname):
    cid, cuid, ctype, carches = CANDS[cname]
    return B._mk_variant(ci, B.vspec(cid, ctype, carches, uid=cuid))


def node_at(ci, pos):
    cur = ci.variants
    for i in pos:
        cur = cur.variants[i]
    return cur


def observe(ci):
    """position -> (id, uid, type, arches, id(object))"""
    out = {}

    def rec(container, pos):
        for key in container.variants:
            v = container.variants[key]
            p = pos + (key,)
            out[p] = (v.id, v.uid, v.type, tuple(sorted(v.arches)), id(v))
            rec(v, p)
    rec(ci.variants, ())
    return out


def invariants(ci, dups=()):
    """dups: UIDs the model knows to occur twice (a dashed top-level UID next to an equal child UID): the adds are not refused,
    only the dump is - uniqueness and lookup by UID are not judged for them."""
    problems = []
    seen_uids = {}

    def rec(container, parent):
        for key in container.variants:
            v = container.variants[key]
            if key != v.id:
                problems.append("variant %s is filed under key %r, not its id %r" % (v.uid, key, v.id))
            if v.parent is not parent:
                problems.append("variant %s: .parent is %r but it is a child of %r" % (v.uid, getattr(v.parent, "uid", None), getattr(parent, "uid", None)))
            if parent is not None:
                if v.uid != "%s-%s" % (parent.uid, v.id):
                    problems.append("child UID %s is not %s-%s" % (v.uid, parent.uid, v.id))
                if not set(v.arches) <= set(parent.arches):
                    problems.append("child %s arches %s not within parent's %s" % (v.uid, sorted(v.arches), sorted(parent.arches)))
                r = call(lambda: parent[v.id])
                if r[0] != "ok" or r[1] is not v:
                    problems.append("parent[%r] does not return the variant %s" % (v.id, v.uid))
            if v.uid in seen_uids and v.uid not in dups:
                problems.append("UID %s occurs twice" % v.uid)
            seen_uids[v.uid] = v
            r = call(lambda: ci[v.uid])
            if v.uid not in dups and (r[0] != "ok" or r[1] is not v):
                problems.append("ComposeInfo[%r] does not return the variant (got %s)" % (v.uid, r[1] if r[0] == "exc" else getattr(r[1], "uid", r[1])))
            rec(v, v)
    rec(ci.variants, None)
    return problems


def subtree(container, recursive):
    out = []
    for v in container.variants.values():
        out.append(v)
        if recursive:
            out.extend(subtree(v, True))
    return out


SELF_FILTERS = [["self"], ["self", "addon"], ["self", "optional", "variant"]]


def check_queries(ci, acc=None):
    problems = []
    levels = [ci, ci.variants] + [v for v in subtree(ci.variants, True) if v.variants]
    n = 0
    before = observe(ci)
    for level in levels:
        nested = level is not ci.variants and level is not ci
        for arch, types, recursive in itertools.product(ARCH_FILTERS, TYPE_FILTERS + (SELF_FILTERS if nested else []), (False, True)):
            r = call(level.get_variants, arch=arch, types=types, recursive=recursive)
            n += 1
            q = "%s.get_variants(arch=%r, types=%r, recursive=%r)" % ("ComposeInfo" if level is ci else getattr(level, "uid", "<top>"), arch, types, recursive)
            if r[0] != "ok":
                problems.append("%s raised %s" % (q, r[1]))
                continue
            res = r[1]
            uids = [v.uid for v in res]
            if len(set(map(id, res))) != len(res):
                problems.append("%s returns a variant twice: %s" % (q, uids))
            if uids != sorted(uids):
                problems.append("%s is not ordered by UID: %s" % (q, uids))
            universe = subtree(ci.variants if level is ci else level, recursive)
            if types and "self" in types:
                if sum(1 for v in res if v is level) != 1:
                    problems.append("%s does not contain the variant itself exactly once: %s" % (q, uids))
                res = [v for v in res if v is not level]
                if types == ["self"] and res:
                    problems.append("%s returns %s although only 'self' was requested" % (q, [v.uid for v in res]))
                types = [t for t in types if t != "self"]
            for v in res:
                if not any(v is u for u in universe):
                    problems.append("%s returns %s which is not below that level" % (q, v.uid))
                if arch and arch != "src" and arch not in v.arches:
                    problems.append("%s returns %s which lacks the arch (%s)" % (q, v.uid, sorted(v.arches)))
                if types and v.type not in types:
                    problems.append("%s returns %s of type %s" % (q, v.uid, v.type))
            if arch in (None, "src") and types is None:         # (the pseudo-architecture 'src' matches every variant)
                if sorted(uids) != sorted(v.uid for v in universe):
                    problems.append("%s = %s, expected every variant %s" % (q, uids, sorted(v.uid for v in universe)))
    if observe(ci) != before:
        problems.append("the queries changed the forest (ids, UIDs, types or arch sets differ after get_variants calls)")
    problems.extend("after the queries: " + p for p in invariants(ci)[:2])
    return problems, n


def run_history(hist, queries=False):
    """Replays hist on a fresh ComposeInfo in lockstep with the model -> (model state, problems, labels, n_queries)."""
    import productmd.composeinfo as pc
    ci = fresh_ci()
    objs = {c: mk(ci, c) for c in ORDER}
    state = frozenset()
    labels = []
    nq = 0
    for n, op in enumerate(hist):
        state2, want, reason = m_step(state, op)
        if want is None:
            return state, ["harness: operation outside the domain in history: %s" % (op,)], labels, nq
        before = observe(ci)
        if op[0] == "reload" and want == "ValueError":
            w = call(ci.dumps)
            got = "ok" if w[0] == "ok" else w[1]
        elif op[0] == "reload":
            w = call(ci.dumps)
            if w[0] != "ok":
                return state2, ["step %d reload: a forest built by valid adds cannot be written: %s" % (n, w[1])], labels, nq
            back = pc.ComposeInfo()
            r = call(back.loads, w[1])
            if r[0] != "ok":
                return state2, ["step %d reload: the written forest cannot be read back: %s" % (n, r[1])], labels, nq
            ci = back
            objs = {c: mk(ci, c) for c in ORDER}
            got = "ok"
        else:
            target = node_at(ci, op[1])
            cand = objs[op[2]]
            if op[0] == "add-as":
                old_uid = cand.uid
                cand.uid = "%s-%s" % (target.uid, cand.id)
            r = call(target.add, cand)
            got = "ok" if r[0] == "ok" else r[1]
            if op[0] == "add-as" and r[0] == "ok":
                # (the forest now contains a cycle: nothing can be observed any more without running in circles)
                return state2, ["step %d %s: a variant was accepted below its own descendant %s (UID re-aligned to %s): the forest "
                                "has a cycle" % (n, op, target.uid, cand.uid)], labels, nq
            if op[0] == "add-as" and r[0] != "ok":
                got = "ValueError"            # (the statement says "refused", it names no class: today a direct child answers RecursionError)
                cand.uid = old_uid
                if observe(ci) != before:
                    got = "refused, but the forest changed"
        after = observe(ci)
        if got != want:
            return state2, ["step %d %s: library %s, model %s (%s)" % (n, op, got, want, reason)], labels, nq
        if want == "ValueError" and before != after:
            return state2, ["step %d %s: refused add (%s) changed the container contents" % (n, op, reason)], labels, nq
        if want == "ValueError" and op[0] not in ("reload",):
            # the very same add again, right away: the refusal must not depend on the call having been seen before
            r = call(target.add, cand)
            if op[0] != "add-as" and (r[0] == "ok" or r[1] != want or observe(ci) != before):
                return state2, ["step %d %s: refused (%s), but the same add repeated at once %s" % (
                    n, op, reason, "is accepted" if r[0] == "ok" else "raises %s" % r[1] if r[1] != want else
                    "changes the forest")], labels, nq
        nodes = m_nodes(state2)
        exp = {pos: CANDS[name] for pos, (name, orig) in nodes.items()}
        got_struct = {pos: v[:4] for pos, v in after.items()}
        if got_struct != {pos: (c[0], c[1], c[2], tuple(sorted(c[3]))) for pos, c in exp.items()}:
            return state2, ["step %d %s: forest %s differs from the model %s" % (n, op, sorted(got_struct), sorted(exp))], labels, nq
        for pos, (name, orig) in nodes.items():
            if orig and after[pos][4] != id(objs[name]):
                return state2, ["step %d %s: position %s does not hold the object that was added" % (n, op, pos)], labels, nq
        inv = invariants(ci, m_dup_uids(state2))
        if inv:
            return state2, ["step %d %s (%s): %s" % (n, op, reason, "; ".join(inv[:3]))], labels, nq
        state = state2
        labels.append(reason)
    if queries and not m_dup_uids(state):
        qp, nq = check_queries(ci)
        if qp:
            return state, ["after %s: %s" % (hist, "; ".join(qp[:3]))], labels, nq
    return state, [], labels, nq


def eval_hist(hist, queries):
    _, problems, labels, _ = run_history(hist, queries)
    return {"problems": problems, "steps": labels}


# ---- exploration ----------------------------------------------------------------------------------

def depth(tier):
    return 5 if tier == "quick" else 8


def source_states(d):
    start = frozenset()
    seen = {start: []}
    level = [start]
    for _ in range(d - 1):
        nxt = []
        for s in level:
            for op in m_ops(s):
                s2, want, _ = m_step(s, op)
                if want is None:
                    continue
                if s2 not in seen:
                    seen[s2] = seen[s] + [op]
                    nxt.append(s2)
        level = nxt
    return seen


def units(tier, seed):
    hists = sorted(source_states(depth(tier)).values(), key=lambda h: (len(h), repr(h)))
    k = seed % len(hists)
    hists = hists[k:] + hists[:k]
    chunk = 6 if tier == "quick" else 12
    return [("hist", hists[i:i + chunk]) for i in range(0, len(hists), chunk)]


def run_unit(unit, acc):
    _, hists = unit
    for hist in hists:
        src, problems, labels, nq = run_history(hist, queries=True)
        acc.ev(nq)
        acc.n["get_variants_queries"] += nq
        if nq:
            acc.outcome("query:filtered")
        if acc.state(src):
            nodes = m_nodes(src)
            if any(len(p) == 3 for p in nodes):
                acc.outcome("state:depth3")
            if any(len(p) == 1 and "-" in CANDS[n][1] for p, (n, _) in nodes.items()):
                acc.outcome("state:dashed-top")
        if problems:
            acc.violation("state", {"kind": "hist", "hist": hist, "queries": True}, {"problems": problems, "steps": labels},
                          "history %s: %s" % (hist, problems[0]))
            continue
        for op in m_ops(src):
            s2, want, reason = m_step(src, op)
            if want is None:
                continue
            full = hist + [op]
            st, problems, labels, _ = run_history(full)
            acc.trans()
            acc.trace()
            acc.ev()
            acc.state(st)
            if problems:
                acc.violation("history:" + reason, {"kind": "hist", "hist": full, "queries": False},
                              {"problems": problems, "steps": labels}, "history %s: %s" % (full, problems[0]))
                continue
            if reason == "accepted":
                acc.outcome("add:accepted")
            elif reason == "same-object-again":
                acc.outcome("add:same-object-again")
            elif reason == "reload":
                acc.outcome("reload:ok")
            elif reason == "dump-refuses-duplicate-uid":
                acc.outcome("dump:refused-duplicate-uid")
            else:
                acc.outcome("refused:" + reason)
            if len(full) >= 2:
                acc.nontriv(tuple(map(repr, full)))
        if len(hist) == 3:
            acc.sample({"history": hist + [["add", ["A", "o"], "A"]], "expected_last": "ValueError (its own ancestor), forest unchanged"}, limit=2)


def replay(case):
    return eval_hist(case["hist"], case["queries"])


KNOWN = {}


def describe(tier):
    return {
        "rule": "candidate pool of 13 variants (top-level A{i386,x86_64}, B{x86_64}, dashed childless top-level A-X (sorting between A and its children); children A-o "
                "(optional), A-a (addon), grandchild A-o-g (layered-product), B-o; invalid siblings: a second object with id o, "
                "children with an arch outside the parent's (under B and under A-o), a misaligned UID X-m, a UID that lacks only the dash, a dashed top-level UID equal to the child UID A-o - accepted by add, but then the dump must refuse); operations target.add("
                "cand) for every target in the forest or the top container x every candidate (incl. the same object again, an "
                "ancestor under its descendant, a top-level variant under another) and reload (write + read into a fresh object). "
                "Every history up to the depth, deduplicated on the model state; after every step: accepted/refused as the model "
                "says, refusal = ValueError and unchanged contents, forest == model, invariants (child UID = parent UID-id, child "
                "arches within parent's, unique UIDs, ci[uid] and parent[id] find the variant, .parent mirrors containment); on "
                "every source state 110 get_variants queries per level (5 arch filters x 11 type filters x recursive; + 3 filters containing 'self' on nested levels), after which the forest must be unchanged.  Non-trivial: "
                "a history of >= 2 operations.",
        "bound": "history depth <= %d (the model's state space closes at depth 8: 7 placeable variants + reload)" % depth(tier),
        "exhaustive": True,
        "model_binding": "the forest model is stepped in lockstep with the real ComposeInfo on every operation of every history",
        "assumptions": ["adding an object that already sits elsewhere in the forest to the TOP container is outside the explored "
                        "domain (DESIGN.md section 4)", "types=['self'] is outside the statement"],
    }
