"""C16 - checksums recorded in metadata are the true digests of the right files.

(i) compute_checksum / Checksums.add: file sizes around the 1 MiB chunk x every hashlib algorithm x read schedules
    (full reads; one short read at every read index, owned through a shadowed `open`) x path spellings;
(ii) every [checksums] section of <= N entries over 9 value shapes in every order;
(iii) every Image.add_checksum history of depth <= 4 over 2 types x 4 values.
"""
import hashlib
import itertools
import os
import shutil
import tempfile

from mc.build import im as IM
from mc.build import ti as TI
from mc.core.util import call, exc_name
from mc.models import ini

ID = "C16"
LEVEL = "exploration"
REQUIRED_OUTCOMES = ["digest:ok", "digest:short-read:ok", "digest:variable-length-refused-or-standard", "path:normalised",
                     "path:absolute-refused", "section:loaded", "section:rejected", "section:bare-digest-typed",
                     "add_checksum:conflict-refused", "add_checksum:kept", "table:each-path-its-own-entry", "add-history:last-call-wins",
                     "table:absolute-path-not-written", "table:absolute-path-not-read"]

MIB = 1024 ** 2
SIZES = [0, 1, MIB - 1, MIB, MIB + 1, 2 * MIB - 1, 2 * MIB, 2 * MIB + 1, 3 * MIB + 17]
SHORT = [1, MIB // 2, MIB - 1]
PATTERN = bytes(range(251))
REL_PATHS = ["f", "./f", "d//f", "d/x/../f", "d/./f", "./d/../f"]


def content(n):
    return (PATTERN * (n // len(PATTERN) + 1))[:n]


class ScheduledFile(object):
    """A binary file whose k-th read() returns at most `short` bytes (all other reads are served in full)."""
    opened = 0

    def __init__(self, data, k, short):
        self.data, self.pos, self.k, self.short, self.reads = data, 0, k, short, 0

    def read(self, n=-1):
        if n is None or n < 0:
            n = len(self.data) - self.pos
        if self.reads == self.k and self.short is not None:
            n = min(n, self.short)
        self.reads += 1
        out = self.data[self.pos:self.pos + n]
        self.pos += len(out)
        return out

    def readinto(self, buf):
        chunk = self.read(len(buf))
        buf[:len(chunk)] = chunk
        return len(chunk)

    def read1(self, n=-1):
        return self.read(n)

    def readable(self):
        return True

    def seekable(self):
        return True

    def tell(self):
        return self.pos

    def seek(self, pos, whence=0):
        self.pos = {0: 0, 1: self.pos, 2: len(self.data)}[whence] + pos
        return self.pos

    def fileno(self):
        raise OSError("the scheduled file has no descriptor")      # (what io objects without a descriptor raise)

    @property
    def closed(self):
        return False

    def __enter__(self):
        return self

    def __exit__(self, *a):
        return False

    def close(self):
        pass


def eval_digest(size, algo, k, short):
    """compute_checksum on a file of `size` bytes whose k-th read is short (k None: the real file, full reads), AFTER an
    unrelated file was hashed with the same algorithm (state must not carry over between calls).  Verdict only."""
    import productmd.treeinfo as pt
    data = content(size)
    ref = reference_digest(size, algo)
    tmp = tempfile.mkdtemp(prefix="c16-")
    try:
        path = os.path.join(tmp, "f")
        # the SAME path held other content of the same size (and the same mtime) a moment ago and was hashed then
        with open(path, "wb") as f:
            f.write(bytes((b + 1) % 256 for b in data[:4096]) + data[4096:])
        st = os.stat(path)
        call(pt.compute_checksum, path, algo)
        with open(path, "wb") as f:
            f.write(data)
        os.utime(path, ns=(st.st_atime_ns, st.st_mtime_ns))
        with open(os.path.join(tmp, "warmup"), "wb") as f:
            f.write(b"some other file")
        call(pt.compute_checksum, os.path.join(tmp, "warmup"), algo)
        ScheduledFile.opened = 0
        if k is not None:
            def fake_open(p, mode="r", *a, **kw):
                ScheduledFile.opened += 1
                return ScheduledFile(data, k, short)
            pt.open = fake_open
        try:
            r = call(pt.compute_checksum, path, algo)
        finally:
            if k is not None:
                del pt.open
        return {"returned_digest": r[0] == "ok", "equals_hashlib_one_shot": r == ref, "error": None if r[0] == "ok" else r[1],
                "seam_used": (ScheduledFile.opened > 0) if k is not None else None}
    finally:
        shutil.rmtree(tmp, ignore_errors=True)


def reference_digest(size, algo):
    try:
        return ["ok", hashlib.new(algo, content(size)).hexdigest()]
    except TypeError:
        return ["variable-length"]
    except Exception as exc:                                           # noqa
        return ["unavailable", exc_name(exc)]


def norm(path):
    parts = []
    for p in path.split("/"):
        if p in ("", "."):
            continue
        if p == ".." and parts and parts[-1] != "..":
            parts.pop()
        else:
            parts.append(p)
    return "/".join(parts) or "."


REL_PATHS_LINK = ["d/link/../f", "./d/link/../f"]


def eval_add(rel, absolute, supplied=None):
    """Checksums.add with the value computed from the file below root_dir.  Layout: f, d/f, e/f all differ; d/x is a directory,
    d/link is a symlink to ../e/sub - the checksum belongs to the file the NORMALISED relative path names."""
    ti = TI.build(TI.seed_src())
    tmp = tempfile.mkdtemp(prefix="c16-")
    try:
        os.makedirs(os.path.join(tmp, "d", "x"))
        os.makedirs(os.path.join(tmp, "e", "sub"))
        os.symlink(os.path.join("..", "e", "sub"), os.path.join(tmp, "d", "link"))
        data = content(MIB + 3)
        files = {"f": data, "d/f": data[:-1], "e/f": data[:-2]}
        for p, blob in files.items():
            with open(os.path.join(tmp, p), "wb") as f:
                f.write(blob)
        arg = os.path.join(tmp, rel) if absolute else rel
        r = call(ti.checksums.add, arg, "sha256", supplied, tmp)
        table = {k.replace(tmp, "<root>"): list(v) for k, v in ti.checksums.checksums.items()}
        want = {} if absolute else {norm(rel): ["sha256", supplied or hashlib.sha256(files[norm(rel)]).hexdigest()]}     # ('' = compute)
        return {"result": "ok" if r[0] == "ok" else r[1], "keys": sorted(table), "table_is_expected": table == want}
    finally:
        shutil.rmtree(tmp, ignore_errors=True)


# ---- (ii) [checksums] sections -----------------------------------------------------------------

SHAPES = {
    "typed-sha256": "sha256:" + "a" * 64, "typed-md5": "md5:" + "b" * 32, "bare32": "c" * 32, "bare40": "d" * 40,
    "bare64": "e" * 64, "bare8": "f" * 8, "bare65": "0" * 65, "three-parts": "a:b:c", "empty": "",
    # typed entries whose WHOLE text is as long as a bare md5 / sha1 / sha256 digest
    "typed-len40": "blake2s:" + "1" * 32, "typed-len64": "blake2b:" + "2" * 56, "typed-len32": "sha224:" + "3" * 25,
}
SHAPE_EXPECT = {"typed-sha256": ["sha256", "a" * 64], "typed-md5": ["md5", "b" * 32], "bare32": ["md5", "c" * 32],
                "bare40": ["sha1", "d" * 40], "bare64": ["sha256", "e" * 64],
                "typed-len40": ["blake2s", "1" * 32], "typed-len64": ["blake2b", "2" * 56], "typed-len32": ["sha224", "3" * 25]}
_BASE_TEXT = []


def base_text():
    if not _BASE_TEXT:
        spec = TI.seed_flat()
        spec["checksums"] = {}
        _BASE_TEXT.append(TI.dumps(TI.build(spec)))
    return _BASE_TEXT[0]


def eval_section(shapes):
    import productmd.treeinfo as pt
    text = base_text() + "\n[checksums]\n" + "".join("dir/file%d.img = %s\n" % (i, SHAPES[s]) for i, s in enumerate(shapes))
    ti = pt.TreeInfo()
    r = call(ti.loads, text)
    if r[0] != "ok":
        return {"load": r[1]}
    return {"load": "ok", "table": {k: list(v) for k, v in ti.checksums.checksums.items()}}


LEGACY_PATHS = ["images/boot.iso", "x86_64/os/images/boot.iso", "os/images/boot.iso", "/mnt/tree/x86_64/os/images/pxeboot/vmlinuz",
                "/abs/images/efiboot.img", "./images/product.img"]
LEGACY_EXPECT = {"images/boot.iso": "images/boot.iso", "x86_64/os/images/boot.iso": "x86_64/os/images/boot.iso",
                 "os/images/boot.iso": "os/images/boot.iso", "/mnt/tree/x86_64/os/images/pxeboot/vmlinuz": "images/pxeboot/vmlinuz",
                 "/abs/images/efiboot.img": "abs/images/efiboot.img", "./images/product.img": "./images/product.img"}


def eval_legacy_section(paths):
    """a pre-productmd tree: only ABSOLUTE checksum paths are rewritten (cut after /os/, or the leading slash dropped)"""
    import productmd.treeinfo as pt
    digests = {p: hashlib.sha256(p.encode()).hexdigest() for p in paths}
    text = "[general]\nfamily = Foo\nversion = 1\narch = x86_64\nvariant = Server\n\n[checksums]\n" + \
        "".join("%s = %s\n" % (p, digests[p]) for p in paths)
    ti = pt.TreeInfo()
    r = call(ti.loads, text)
    if r[0] != "ok":
        return {"load": r[1]}
    want = {LEGACY_EXPECT[p]: ["sha256", digests[p]] for p in paths}
    got = {k: list(v) for k, v in ti.checksums.checksums.items()}
    return {"load": "ok", "keys": sorted(got), "each_path_has_its_own_digest": got == want}


# ---- (ii b) tables of several paths, filled in every order ---------------------------------------

TABLE_PATHS = ["images/boot.iso", "LiveOS/squashfs.img", ".discinfo", "zz/last.img", "-dash/first", "Images/Upper.img"]
TABLE_TYPES = ["sha256", "md5", "sha1", "sha512", "sha256", "md5"]
ABS_PATH = "/mnt/tree/images/boot.iso"


def _entry(p):
    t = TABLE_TYPES[TABLE_PATHS.index(p)] if p in TABLE_PATHS else "sha256"
    return [t, hashlib.new(t, p.encode()).hexdigest()]


def eval_table(paths, how):
    """paths (in this order) recorded through add() with a supplied digest ('add') or set in the mapping ('raw'); an absolute
    path is always put into the mapping directly (add() refuses it).  Then write, read, compare line by line."""
    import productmd.treeinfo as pt
    ti = TI.build(dict(TI.seed_flat(), checksums={}))
    for p in paths:
        t, v = _entry(p)
        if how == "add" and not p.startswith("/"):
            r = call(ti.checksums.add, p, t, v)
            if r[0] != "ok":
                return {"dump": "add refused: " + r[1]}
        else:
            ti.checksums.checksums[p] = [t, v]
    keys = sorted(ti.checksums.checksums)
    w = call(TI.dumps, ti)
    if w[0] != "ok":
        return {"dump": w[1], "keys": keys}
    lines = ini.as_dict(w[1]).get("checksums", {})
    back = pt.TreeInfo()
    r = call(back.loads, w[1])
    return {"dump": "ok", "keys": keys, "written": {k: v.split(":", 1) for k, v in lines.items()},
            "load": "ok" if r[0] == "ok" else r[1],
            "table": {k: list(v) for k, v in back.checksums.checksums.items()} if r[0] == "ok" else None}


def eval_table_text(paths):
    """the same table as the text of a current-format file"""
    import productmd.treeinfo as pt
    text = base_text() + "\n[checksums]\n" + "".join("%s = %s:%s\n" % (p, _entry(p)[0], _entry(p)[1]) for p in paths)
    ti = pt.TreeInfo()
    r = call(ti.loads, text)
    return {"load": "ok" if r[0] == "ok" else r[1],
            "table": {k: list(v) for k, v in ti.checksums.checksums.items()} if r[0] == "ok" else None}


# ---- (ii c) histories of computing add() calls on ONE table ---------------------------------------

HIST_OPS = [[root, rel, ctype] for root in ("A", "B") for rel in ("f", "./d/f") for ctype in ("md5", "sha256")]


def eval_add_history(hist):
    """Checksums.add(rel, type, root_dir=<tree>) with the digest computed from the file, several times on one object: two trees
    hold different files under the same relative paths; after every call the entry of that path is the digest of the file in
    THAT tree with THAT algorithm (the last call wins), all other entries are untouched."""
    ti = TI.build(dict(TI.seed_flat(), checksums={}))
    tmp = tempfile.mkdtemp(prefix="c16-")
    try:
        blobs = {}
        for root in ("A", "B"):
            os.makedirs(os.path.join(tmp, root, "d"))
            for rel in ("f", "d/f"):
                blobs[(root, rel)] = ("%s:%s:" % (root, rel)).encode() * 50
                with open(os.path.join(tmp, root, rel), "wb") as fh:
                    fh.write(blobs[(root, rel)])
        model = {}
        steps = []
        for root, rel, ctype in hist:
            r = call(ti.checksums.add, rel, ctype, None, os.path.join(tmp, root))
            model[norm(rel)] = [ctype, hashlib.new(ctype, blobs[(root, norm(rel))]).hexdigest()]
            table = {k: list(v) for k, v in ti.checksums.checksums.items()}
            steps.append({"result": "ok" if r[0] == "ok" else r[1], "table_is_expected": table == model})
        return {"steps": steps}
    finally:
        shutil.rmtree(tmp, ignore_errors=True)


# ---- (iii) add_checksum histories --------------------------------------------------------------

VALUES = ["x" * 64, "y" * 64, "", None]
CTYPES = ["sha256", "md5", "SHA256"]


def eval_add_checksum(hist):
    import productmd.images as pi
    img = IM.mk_image(pi.Images(), IM.imgspec(0, checksums={}))
    steps = []
    for ctype, value in hist:
        before = dict(img.checksums)
        r = call(img.add_checksum, None, ctype, value)
        steps.append({"result": r if r[0] == "exc" else ["ok", r[1]], "before": before, "after": dict(img.checksums)})
    return {"steps": steps}


def judge_add_checksum(hist, o):
    for (ctype, value), st in zip(hist, o["steps"]):
        before, after = st["before"], st["after"]
        for t, v in before.items():
            if after.get(t, "<gone>") != v:
                return "recorded %s checksum %r became %r (call: %r)" % (t, v, after.get(t, "<gone>"), (ctype, value))
        if ctype in before:
            if value and value != before[ctype] and st["result"] != ["exc", "ValueError"]:
                return "conflicting %s value %r for recorded %r did not raise ValueError: %s" % (ctype, value, before[ctype], st["result"])
            if (not value or value == before[ctype]) and st["result"][0] == "exc":
                return "repeating / empty value %r for recorded %r raised %s" % (value, before[ctype], st["result"])
        else:
            if st["result"][0] == "exc" or after.get(ctype, "<none>") != value:
                return "first %s value %r was not recorded: %s, %s" % (ctype, value, st["result"], after)
        if set(after) - set(before) - {ctype}:
            return "call for %s added other entries: %s" % (ctype, after)
    return None


# ---- exploration --------------------------------------------------------------------------------

def algos():
    return sorted(hashlib.algorithms_available)


def units(tier, seed):
    sizes = SIZES if tier == "thorough" else SIZES[:8]
    us = [("digest", a, sizes) for a in algos()]
    us.append(("paths",))
    us.append(("legacy-sections",))
    for first in TABLE_PATHS:
        us.append(("tables", first, 2 if tier == "quick" else 3))
    for first in HIST_OPS:
        us.append(("addhist", first, 2 if tier == "quick" else 3))
    n = 2 if tier == "quick" else 3
    names = sorted(SHAPES)
    for first in names:
        us.append(("sections", first, n))
    for first in itertools.product(CTYPES, VALUES):
        us.append(("addchk", list(first)))
    return us


def run_unit(unit, acc):
    k = unit[0]
    if k == "digest":
        _, algo, sizes = unit
        for size in sizes:
            ref = reference_digest(size, algo)
            if ref[0] == "unavailable":
                acc.outcome("digest:algorithm-unavailable")
                continue
            nreads = size // MIB + 2
            schedules = [(None, None)] + [(j, s) for j in range(nreads) for s in SHORT]
            if algo not in ("sha256", "md5", "sha1", "sha512", "blake2b"):
                schedules = [(None, None), (0, 1), (nreads - 2, MIB - 1)]     # full schedule set on the common algorithms
            for j, s in schedules:
                o = eval_digest(size, algo, j, s)
                acc.ev()
                case = {"kind": "digest", "size": size, "algo": algo, "k": j, "short": s}
                if ref[0] == "variable-length":
                    if o["returned_digest"]:
                        acc.violation("digest-variable", case, o, "%s has no fixed digest length but a digest was recorded" % algo)
                    else:
                        acc.outcome("digest:variable-length-refused-or-standard")
                    continue
                if not o["equals_hashlib_one_shot"]:
                    acc.violation("digest" + ("-short-read" if j is not None else ""), case, o,
                                  "compute_checksum(%d bytes, %s, read #%s short=%s) after hashing another file: %s, not the hashlib one-shot digest"
                                  % (size, algo, j, s, o["error"] or "a different digest"))
                else:
                    acc.outcome("digest:ok" if j is None else "digest:short-read:ok")
                    if j is not None and not o["seam_used"]:
                        acc.outcome("digest:seam-not-used")
                if size >= MIB - 1:
                    acc.nontriv((size, algo, j, s))
        acc.sample({"size": sizes[-1], "algorithm": algo, "read_schedule": "read #1 returns 1 byte"}, limit=2)
    elif k == "paths":
        for rel, supplied in [(r, None) for r in REL_PATHS + REL_PATHS_LINK] + [(r, "5" * 64) for r in REL_PATHS] + [(r, "") for r in REL_PATHS[:3]]:
            o = eval_add(rel, False, supplied)
            acc.ev()
            if o != {"result": "ok", "keys": [norm(rel)], "table_is_expected": True}:
                acc.violation("path", {"kind": "add", "rel": rel, "absolute": False, "supplied": supplied}, o,
                              "Checksums.add(%r): %s (expected the digest of the file %r recorded under that key)" % (rel, o, norm(rel)))
            else:
                acc.outcome("path:normalised")
            acc.nontriv(("path", rel))
        for rel, supplied in (("f", None), ("d/f", None), ("f", "5" * 64)):
            o = eval_add(rel, True, supplied)
            acc.ev()
            if o != {"result": "ValueError", "keys": [], "table_is_expected": True}:
                acc.violation("path-absolute", {"kind": "add", "rel": rel, "absolute": True, "supplied": supplied}, o,
                              "Checksums.add(absolute path) -> %s, expected ValueError and nothing recorded" % (o,))
            else:
                acc.outcome("path:absolute-refused")
    elif k == "legacy-sections":
        for n in (1, 2, 3):
            for paths in itertools.permutations(LEGACY_PATHS, n):
                if len({LEGACY_EXPECT[p] for p in paths}) < len(paths):
                    continue
                o = eval_legacy_section(list(paths))
                acc.ev()
                acc.nontriv(("legacy", paths))
                if o != {"load": "ok", "keys": sorted(LEGACY_EXPECT[p] for p in paths), "each_path_has_its_own_digest": True}:
                    acc.violation("legacy-section", {"kind": "legacy-section", "paths": list(paths)}, o,
                                  "pre-productmd [checksums] %s loads as %s" % (list(paths), o))
                else:
                    acc.outcome("section:loaded")
    elif k == "addhist":
        _, first, n = unit
        for m in range(0, n):
            for rest in itertools.product(HIST_OPS, repeat=m):
                hist = [first] + [list(x) for x in rest]
                o = eval_add_history(hist)
                acc.ev()
                if len(hist) > 1:
                    acc.nontriv(("addhist", repr(hist)))
                bad = [i for i, st in enumerate(o["steps"]) if st != {"result": "ok", "table_is_expected": True}]
                if bad:
                    acc.violation("add-history", {"kind": "addhist", "hist": hist}, o,
                                  "Checksums.add history %s (tree, path, algorithm): after call #%d the table is not {each path: the digest "
                                  "of the file in the tree and with the algorithm of the LAST call for it} (%s)" % (hist, bad[0], o["steps"][bad[0]]))
                else:
                    acc.outcome("add-history:last-call-wins")
    elif k == "tables":
        _, first, n = unit
        others = [p for p in TABLE_PATHS if p != first]
        for m in range(0, n):
            for rest in itertools.permutations(others, m):
                paths = [first] + list(rest)
                want_table = {norm(p): _entry(p) for p in paths}
                for how in ("add", "raw"):
                    if how == "raw":
                        want_table = {p: _entry(p) for p in paths}
                    o = eval_table(paths, how)
                    acc.ev()
                    case = {"kind": "table", "paths": paths, "how": how}
                    want = {"dump": "ok", "keys": sorted(want_table), "written": want_table, "load": "ok", "table": want_table}
                    if o != want:
                        acc.violation("table", case, o, "checksums recorded (%s) in the order %s: after write + read %s, expected every path "
                                      "with its own type and value %s" % (how, paths, {x: o.get(x) for x in ("dump", "load", "table")}, want_table))
                    else:
                        acc.outcome("table:each-path-its-own-entry")
                    if len(paths) > 1:
                        acc.nontriv(("table", tuple(paths), how))
                # an absolute path at every position among them: the object must not be written, the text must not be read
                for pos in range(len(paths) + 1):
                    mixed = paths[:pos] + [ABS_PATH] + paths[pos:]
                    o = eval_table(mixed, "raw")
                    acc.ev()
                    if o.get("dump") not in ("ValueError", "TypeError"):
                        acc.violation("table-absolute", {"kind": "table", "paths": mixed, "how": "raw"}, o,
                                      "a checksum table %s holding an absolute path was written (%s)" % (mixed, o.get("dump")))
                    else:
                        acc.outcome("table:absolute-path-not-written")
                    o = eval_table_text(mixed)
                    acc.ev()
                    if o["load"] == "ok":
                        acc.violation("table-absolute-load", {"kind": "table-text", "paths": mixed}, o,
                                      "a [checksums] section %s holding an absolute path was read: %s" % (mixed, o["table"]))
                    else:
                        acc.outcome("table:absolute-path-not-read")
    elif k == "sections":
        _, first, n = unit
        names = sorted(SHAPES)
        for m in range(0, n):
            for rest in itertools.product(names, repeat=m):
                shapes = [first] + list(rest)
                o = eval_section(shapes)
                acc.ev()
                case = {"kind": "section", "shapes": shapes}
                if all(s in SHAPE_EXPECT for s in shapes):
                    want = {"load": "ok", "table": {"dir/file%d.img" % i: SHAPE_EXPECT[s] for i, s in enumerate(shapes)}}
                    if o != want:
                        acc.violation("section-table", case, o, "[checksums] %s loads as %s, expected %s" % (shapes, o, want))
                    else:
                        acc.outcome("section:loaded")
                        if any(s.startswith("bare") for s in shapes):
                            acc.outcome("section:bare-digest-typed")
                else:
                    if o["load"] == "ok":
                        acc.violation("section-accepted", case, o, "[checksums] with values %s was accepted: %s" % (shapes, o.get("table")))
                    else:
                        acc.outcome("section:rejected")
                if len(shapes) > 1:
                    acc.nontriv(tuple(shapes))
        acc.sample({"checksums_section": [first, "bare8"]}, limit=2)
    else:
        first = tuple(unit[1])
        calls = list(itertools.product(CTYPES, VALUES))
        for m in range(0, 4):
            for rest in itertools.product(calls, repeat=m):
                hist = [list(first)] + [list(c) for c in rest]
                o = eval_add_checksum(hist)
                acc.ev()
                why = judge_add_checksum(hist, o)
                if why:
                    acc.violation("add_checksum", {"kind": "addchk", "hist": hist}, o, "add_checksum history %s: %s" % (hist, why))
                else:
                    if any(st["result"] == ["exc", "ValueError"] for st in o["steps"]):
                        acc.outcome("add_checksum:conflict-refused")
                    acc.outcome("add_checksum:kept")
                if len(hist) > 1:
                    acc.nontriv(repr(hist))


def replay(case):
    k = case["kind"]
    if k == "addhist":
        return eval_add_history(case["hist"])
    if k == "table":
        return eval_table(case["paths"], case["how"])
    if k == "table-text":
        return eval_table_text(case["paths"])
    if k == "digest":
        return eval_digest(case["size"], case["algo"], case["k"], case["short"])
    if k == "add":
        return eval_add(case["rel"], case["absolute"], case.get("supplied"))
    if k == "legacy-section":
        return eval_legacy_section(case["paths"])
    if k == "section":
        return eval_section(case["shapes"])
    return eval_add_checksum(case["hist"])


KNOWN = {}


def describe(tier):
    return {
        "rule": "(i) compute_checksum on files of sizes %s x every name in hashlib.algorithms_available, real file with full reads and, "
                "through a shadowed open(), one short read (1, 2^19 or 2^20-1 bytes) at every read index (all indexes for "
                "md5/sha1/sha256/sha512/blake2b, two for the others), oracle = hashlib one-shot digest (variable-length algorithms: "
                "refusal or nothing recorded); Checksums.add over 8 relative path spellings (incl. 'x/../' through a symlinked directory) and absolute paths; every digest call is preceded by hashing another file with the same algorithm; (ii) every ordered "
                "[checksums] section of <= %d entries over 9 value shapes (typed sha256/md5, bare 32/40/64, bare 8, bare 65, a:b:c, "
                "empty): each path maps to the type/value on its own line or the load raises; (iii) all add_checksum histories of <= 4 calls "
                "over 3 type spellings (sha256, md5, SHA256) x {x, y, '', None}.  Non-trivial: size >= 2^20-1, a path spelling, a multi-entry section, a history of >= 2 calls."
                % (SIZES if tier == "thorough" else SIZES[:8], 2 if tier == "quick" else 3),
        "bound": "one short read per file; sections <= %d entries; histories <= 4 calls" % (2 if tier == "quick" else 3),
        "exhaustive": True,
        "assumptions": ["file content is a 251-periodic byte pattern (co-prime with the chunk size, so a dropped, repeated or "
                        "reordered chunk changes the digest)",
                        "the short-read seam relies on compute_checksum calling the module-level name open()"],
    }
