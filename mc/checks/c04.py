"""C04 - treeinfo and discinfo survive a write/read cycle unchanged.

Treeinfo: spec-space BFS (deviation bound k) with write -> read -> write against the spec, also from
re-loaded parents.  Discinfo: complete grid of timestamps x descriptions x arches x disc numbers.
"""
import itertools

from mc.build import ti as B
from mc.core import explorer
from mc.core.util import call, diff, exc_name

ID = "C04"
LEVEL = "model_checking"
REQUIRED_OUTCOMES = ["cycle:ok", "reloaded-start:ok", "edit-after-write:ok", "has:child-optional", "has:child-variant", "has:child-addon",
                     "has:depth3", "has:dashed-top-uid", "has:src-tree", "has:layered", "has:media", "has:mixed-case-option",
                     "discinfo:ok"]


class Universe(object):
    def __init__(self, seed=0):
        self.seed = seed

    def seeds(self):
        return [(n, f()) for n, f in B.SEEDS]

    def edits(self, spec):
        return B.edits(spec, self.seed)

    apply = staticmethod(B.apply_spec)
    canon = staticmethod(B.canon)


def spec_of(case):
    spec = dict(B.SEEDS)[case["seed"]]()
    for e in case["edits"]:
        spec = B.apply_spec(spec, e)
    return spec


def oracle(spec, obj):
    import productmd.treeinfo as pt
    problems = []
    try:
        text = B.dumps(obj)
    except (ValueError, TypeError) as exc:
        return "refused", ["dumps: %s" % exc_name(exc)]
    want = B.expected_observation(spec)
    back = pt.TreeInfo()
    try:
        back.loads(text)
    except Exception as exc:                                            # noqa
        return "bad", ["the written .treeinfo cannot be read back: %s: %s" % (exc_name(exc), str(exc)[:160])]
    d = diff(B.observe(back), want)
    if d:
        problems.append("re-read tree differs from what was written (observed != expected): " + "; ".join(d))
    try:
        if B.dumps(back) != text:
            problems.append("second write is not byte-identical")
    except Exception as exc:                                            # noqa
        problems.append("re-read tree cannot be written: %s" % exc_name(exc))
    return ("bad" if problems else "ok"), problems


def eval_case(case):
    import productmd.treeinfo as pt
    spec = spec_of(case)
    try:
        if case["mode"] == "scratch":
            obj = B.build(spec)
        elif case["mode"] == "live":
            # the parent state is built AND WRITTEN, then the last edit is made on that same live object
            parent = spec_of({"seed": case["seed"], "edits": case["edits"][:-1]})
            try:
                obj = B.build(parent)
                B.dumps(obj)
            except (ValueError, TypeError) as exc:
                return {"status": "refused", "stage": "parent", "problems": ["the state before the edit is itself refused: %s" % exc_name(exc)]}
            obj.validate()
            B.apply_obj(obj, case["edits"][-1])
        else:
            parent = spec_of({"seed": case["seed"], "edits": case["edits"][:-1]})
            obj = pt.TreeInfo()
            try:
                try:
                    parent_text = B.dumps(B.build(parent))
                except (ValueError, TypeError) as exc:
                    return {"status": "refused", "stage": "parent", "problems": ["the state before the edit is itself refused: %s" % exc_name(exc)]}
                obj.loads(parent_text)
            except (ValueError, TypeError):
                raise
            except Exception as exc:                                    # noqa
                return {"status": "bad", "problems": ["the parent's written file cannot be read back: %s" % exc_name(exc)]}
            B.apply_obj(obj, case["edits"][-1])
    except (ValueError, TypeError) as exc:
        return {"status": "refused", "problems": ["build: %s" % exc_name(exc)]}
    except (KeyError, IndexError, AttributeError) as exc:
        if case["mode"] == "scratch":
            raise
        return {"status": "bad", "problems": ["the re-read parent object does not hold what was written to it, the next "
                                              "edit cannot be applied: %s" % exc_name(exc)]}
    status, problems = oracle(spec, obj)
    return {"status": status, "problems": problems}


# ---- discinfo -----------------------------------------------------------------------------------

TIMESTAMPS = [1.0, 0.1, 1e-7, 1e22, -5.5, 1417653453.026288, 123456789.12345679, 5e-324, 1.7976931348623157e308]
DESC_ALPHA = ["a", " ", "\"", "'", "#"]
LONG_DESCS = ["Fedora 20", "Red Hat Enterprise Linux 7.0 \"Maipo\" Server", "Näme 日本 21",
              # one line for the file reader (only \n ends a line), but str.splitlines() would break these
              "Fedora 20\x0cDVD", "Fedora\u2028 21", "a\x1cb\x85c\x0bd"]
DISC_NUMBERS = [["ALL"], [1], [1, 2, 3], [10, 2], [2, 10], [9, 10, 11], [3, 1, 2]]


def descriptions():
    out = []
    for n in (1, 2, 3):
        for t in itertools.product(DESC_ALPHA, repeat=n):
            s = "".join(t)
            if s != s.strip() or s[0] in "\"'" or s[-1] in "\"'":
                continue
            out.append(s)
    return out + LONG_DESCS


def eval_discinfo(ts, desc, arch, discs):
    import productmd.discinfo as pd
    d = pd.DiscInfo()
    d.timestamp, d.description, d.arch, d.disc_numbers = ts, desc, arch, list(discs)
    w = call(d.dumps)
    if w[0] != "ok":
        return {"write": w[1]}
    back = pd.DiscInfo()
    r = call(back.loads, w[1])
    if r[0] != "ok":
        return {"write": "ok", "read": r[1]}
    w2 = call(back.dumps)
    out = {"write": "ok", "read": "ok", "facts": [repr(back.timestamp), back.description, back.arch, back.disc_numbers],
           "second_write_identical": w2 == w}
    # a reader that has read ANOTHER .discinfo before (other arch, other and more disc numbers): a reader may be single-use
    # (refuse the second file) - but if it reads the file, it must hand out the facts of THAT file and nothing of the earlier one
    for other in ("1.5\nOther 1\ns390x\n4,5,6,7\n", "1.5\nOther 1\ns390x\nALL\n"):
        used = pd.DiscInfo()
        call(used.loads, other)
        r = call(used.loads, w[1])
        if r[0] == "ok" and [repr(used.timestamp), used.description, used.arch, used.disc_numbers] != out["facts"]:
            out["used_reader_facts"] = [repr(used.timestamp), used.description, used.arch, used.disc_numbers]
    return out


def bound(tier):
    return 1 if tier == "quick" else 2


def units(tier, seed):
    us = [(u, tier, seed) for u in explorer.spec_units(Universe(seed), bound(tier))]
    for ts in TIMESTAMPS:
        us.append((("disc", ts), tier, seed))
    return us


def run_unit(unit, acc):
    u, tier, seed = unit
    if u[0] == "disc":
        ts = u[1]
        for desc in descriptions():
            for arch in ("x86_64", "src", "ppc64le"):
                for discs in DISC_NUMBERS:
                    o = eval_discinfo(ts, desc, arch, discs)
                    acc.ev()
                    acc.trans()
                    acc.state(("disc", repr(ts), desc, arch, tuple(discs)))
                    want = {"write": "ok", "read": "ok", "facts": [repr(ts), desc, arch, list(discs)],
                            "second_write_identical": True}
                    if o != want:
                        acc.violation("discinfo", {"kind": "disc", "ts": repr(ts), "desc": desc, "arch": arch, "discs": discs}, o,
                                      ".discinfo (%r, %r, %s, %s) cycles to %s" % (ts, desc, arch, discs, o))
                    else:
                        acc.outcome("discinfo:ok")
                    if len(desc) > 1 or discs != ["ALL"]:
                        acc.nontriv(("disc", repr(ts), desc, arch, tuple(discs)))
        acc.sample({"discinfo": [repr(ts), "a #", "src", [10, 2]]}, limit=1)
        return

    def visit(spec, trace, parent, last):
        scratch_status = None
        for mode in ("scratch", "reloaded", "live"):
            if mode != "scratch" and last is None:
                continue
            case = {"kind": "tree", "seed": trace[0], "edits": trace[1:], "mode": mode}
            o = eval_case(case)
            acc.ev()
            acc.trace()
            tag = {"scratch": "cycle", "reloaded": "reloaded-start", "live": "edit-after-write"}[mode]
            if mode == "scratch":
                scratch_status = o["status"]
            if o["status"] == "refused" and mode != "scratch" and scratch_status != "refused" and o.get("stage") != "parent":
                # the very same description is written when it is built from scratch: reached another way it must be writable too
                o = {"status": "bad", "problems": ["the description is written when built from scratch, but refused when reached through "
                                                    "%s: %s" % ("a re-read object" if mode == "reloaded" else "an object that had been written before", "; ".join(o["problems"]))]}
            if o["status"] == "refused":
                acc.outcome(tag + ":refused")
                continue
            if o["status"] == "bad":
                acc.violation(tag + ":" + (last[0] if last else "seed"), case, o,
                              "%s via %s: %s" % (trace, mode, "; ".join(o["problems"])[:700]))
                acc.outcome(tag + ":bad")
            else:
                acc.outcome(tag + ":ok")
        nodes = list(B.walk(spec["variants"]))
        for v, d, p in nodes:
            if d > 1:
                acc.outcome("has:child-" + v["type"])
            if d == 3:
                acc.outcome("has:depth3")
            if d == 1 and "-" in v["uid"]:
                acc.outcome("has:dashed-top-uid")
        if spec["tree"]["arch"] == "src":
            acc.outcome("has:src-tree")
        if spec["base_product"]:
            acc.outcome("has:layered")
        if spec["media"]:
            acc.outcome("has:media")
        if any(n != n.lower() for t in spec["images"].values() for n in t) or any(n != n.lower() for n in spec["checksums"]):
            acc.outcome("has:mixed-case-option")
        if len(nodes) > 1 or spec["images"] or spec["checksums"] or spec["media"]:
            acc.nontriv(B.canon(spec))
        if last is not None and last[0] in ("addvar", "image"):
            acc.sample({"seed": trace[0], "edits": trace[1:]}, limit=2)

    explorer.explore_unit(Universe(seed), u, bound(tier), acc, visit)


def replay(case):
    if case["kind"] == "disc":
        return eval_discinfo(float(case["ts"]), case["desc"], case["arch"], case["discs"])
    return eval_case(case)


KNOWN = {}


def describe(tier):
    return {
        "rule": "treeinfo: BFS over edit operations (release/base-product text from an alphabet with inner blanks, mixed case, "
                "non-ASCII and INI-special characters; layered on/off; tree arch incl. src; integer timestamps up to 2^33; "
                "platforms added/removed; top-level variants incl. dashed UID 'Server-optional'; child variants of every type "
                "under any variant to depth 3; each of the 7 path kinds set to a path / '' / '.' / unset; image-table entries "
                "per platform with lower, Mixed.Case and 'dir/with space' option names; stage2 none/main/inst/both; media "
                "none/1of1/2of3; checksums md5/sha1/sha256/sha512 added/removed) from 5 seeds (flat, src, layered+media, "
                "nested depth 3, Server-optional tree).  Every state: build -> dump -> loads -> observe == spec -> dump byte-identical; again from "
                "the re-loaded parent.  discinfo: full grid of 9 timestamps x all descriptions of length <= 3 over "
                "{a, blank, \", ', #} inside the domain + 3 long ones x 3 arches x 7 disc-number lists (ascending, descending, two-digit).  Non-trivial: a tree with "
                "more than one variant or any optional section; a discinfo with a multi-character description or disc list.",
        "bound": "deviation bound k = %d edits from a seed; <= 7 variants, depth <= 3; discinfo grid complete" % bound(tier),
        "exhaustive": True,
        "model_binding": "the spec is the reference model; each state is executed on the real library and compared with it",
        "assumptions": ["'%' is outside the text alphabet (ConfigParser interpolation), platform names do not end in -<arch>, "
                        "descriptions neither start nor end with a quote or blank (DESIGN.md section 4)"],
    }
