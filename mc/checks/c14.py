"""C14 - release IDs round-trip; validators accept exactly the documented names.

Bounded-exhaustive exploration:
 (i)  every string up to length L over one representative per character class, against the three
      predicates (reference: hand-written DFAs) and against create_release_id in all six slots;
 (ii) create -> parse round trip over a full grid of shorts x versions x types (x base product).
"""
import itertools

from mc.models import ids
from mc.core.util import exc_name

ID = "C14"
LEVEL = "exploration"
REQUIRED_OUTCOMES = ["pred:accept", "pred:reject", "create:accept", "create:refuse", "roundtrip:ok"]

FIXED_VERSIONS = ["1", "23", "7.1", "10.0.1", "r", "rawhide", "r1.x", "Rawhide", "RC",
                  # free-form versions that end in / are a known type name
                  "mega", "xeus", "fast", "ga", "xupdates", "eus"]
FIXED_SHORTS = ["f", "rhel", "fedora-server", "fedora-server-23"]


def alphabet(seed):
    lo = ids.LOWER[seed % 26]
    return [lo, lo.upper(), ids.DIGIT[seed % 10], "-", ".", "@", "_!~/ +"[seed % 6]]


def _call(fn, *args):
    try:
        return ["ok", fn(*args)]
    except Exception as exc:                                    # noqa
        return ["exc", exc_name(exc)]


def _lib():
    import productmd.common as c
    return c


SLOTS = {
    "short":      lambda c, s: c.create_release_id(s, "1", "ga"),
    "version":    lambda c, s: c.create_release_id("a", s, "ga"),
    "type":       lambda c, s: c.create_release_id("a", "1", s),
    "bp_short":   lambda c, s: c.create_release_id("a", "1", "ga", s, "1", "ga"),
    "bp_version": lambda c, s: c.create_release_id("a", "1", "ga", "b", s, "ga"),
    "bp_type":    lambda c, s: c.create_release_id("a", "1", "ga", "b", "1", s),
}
SLOT_MODEL = {
    "short":      lambda s: (ids.short_ok(s), ids.release_id(s, "1", "ga")),
    "version":    lambda s: (ids.version_ok(s), ids.release_id("a", s, "ga")),
    "type":       lambda s: (ids.type_ok(s), ids.release_id("a", "1", s)),
    "bp_short":   lambda s: (ids.short_ok(s), ids.release_id("a", "1", "ga", (s, "1", "ga"))),
    "bp_version": lambda s: (ids.version_ok(s), ids.release_id("a", "1", "ga", ("b", s, "ga"))),
    "bp_type":    lambda s: (ids.type_ok(s), ids.release_id("a", "1", "ga", ("b", "1", s))),
}
PREDS = {"short": ("is_valid_release_short", ids.short_ok),
         "version": ("is_valid_release_version", ids.version_ok),
         "type": ("is_valid_release_type", ids.type_ok)}


def eval_pred(which, s):
    c = _lib()
    return {"impl": _call(getattr(c, PREDS[which][0]), s), "model": PREDS[which][1](s)}


def eval_slot(slot, s):
    c = _lib()
    ok, text = SLOT_MODEL[slot](s)
    return {"impl": _call(SLOTS[slot], c, s), "model": ["ok", text] if ok else ["exc", "ValueError"]}


def eval_roundtrip(short, version, rtype, bp):
    c = _lib()
    args = [short, version, rtype] + (list(bp) if bp else [])
    made = _call(c.create_release_id, *args)
    want_id = ids.release_id(short, version, rtype, tuple(bp) if bp else None)
    want = {"short": short, "version": version, "type": rtype}
    if bp:
        want.update({"bp_short": bp[0], "bp_version": bp[1], "bp_type": bp[2]})
    if made[0] == "ok" and not bp:
        _call(c.parse_release_id, "zz-9-eus@yy-8-aus")          # an earlier, unrelated parse must not leak into this one
    parsed = _call(c.parse_release_id, made[1]) if made[0] == "ok" else None
    return {"created": made, "model_id": want_id, "parsed": parsed, "model_parts": want}


def strings_with_prefix(alpha, prefix, maxlen):
    yield prefix
    for n in range(1, maxlen - len(prefix) + 1):
        for t in itertools.product(alpha, repeat=n):
            yield prefix + "".join(t)


def valid_shorts(maxlen, seed):
    lo = ids.LOWER[seed % 26]
    dg = ids.DIGIT[seed % 10]
    out = []
    for n in range(1, maxlen + 1):
        for t in itertools.product([lo, dg, "-"], repeat=n):
            s = "".join(t)
            if ids.short_ok(s):
                out.append(s)
    return out + FIXED_SHORTS


def units(tier, seed):
    alpha = alphabet(seed)
    L = 6 if tier == "quick" else 8
    us = [("strings", "", 1, seed)]                 # the empty string and all strings of length 1
    for a in alpha:
        for b in alpha:
            us.append(("strings", a + b, L, seed))
    shorts = valid_shorts(4, seed)
    for s in shorts:
        us.append(("rt", s, tier, seed))
    us.append(("rtbp", None, tier, seed))
    return us


def _check_string(s, acc, slots):
    trivial = True
    for which in ("short", "version", "type"):
        o = eval_pred(which, s)
        acc.ev()
        if o["impl"] != ["ok", o["model"]]:
            acc.violation("pred-" + which, {"kind": "pred", "which": which, "s": s}, o,
                          "is_valid_release_%s(%r) -> %s, documented language says %s" % (which, s, o["impl"], o["model"]))
        acc.outcome("pred:accept" if o["model"] else "pred:reject")
        if o["model"]:
            trivial = False
    if trivial and s and (ids.short_ok(s[:-1]) or ids.version_ok(s[:-1])):
        trivial = False
    if not trivial:
        acc.nontriv(s)
    for slot in slots:
        if slot.startswith("bp_") and slot == "bp_short" and s == "":
            continue                                  # empty bp_short means "no base product"
        o = eval_slot(slot, s)
        acc.ev()
        if o["impl"] != o["model"]:
            acc.violation("create-" + slot, {"kind": "slot", "slot": slot, "s": s}, o,
                          "create_release_id with %s=%r -> %s, model %s" % (slot, s, o["impl"], o["model"]))
        acc.outcome("create:accept" if o["model"][0] == "ok" else "create:refuse")


def _check_rt(short, version, rtype, bp, acc):
    o = eval_roundtrip(short, version, rtype, bp)
    acc.ev()
    ok = (o["created"] == ["ok", o["model_id"]] and o["parsed"] == ["ok", o["model_parts"]])
    if not ok:
        acc.violation("roundtrip", {"kind": "rt", "short": short, "version": version, "type": rtype, "bp": bp}, o,
                      "parse_release_id(create_release_id(%r)) = %s, expected %s"
                      % ((short, version, rtype, bp), o["parsed"], o["model_parts"]))
        acc.outcome("roundtrip:differs")
    else:
        acc.outcome("roundtrip:ok")
    if "-" in short or rtype != "ga" or (bp and ("-" in bp[0] or bp[2] != "ga")):
        acc.nontriv(("rt", short, version, rtype, bp))


def run_unit(unit, acc):
    kind = unit[0]
    if kind == "strings":
        _, prefix, L, seed = unit
        alpha = alphabet(seed)
        n = 0
        for s in strings_with_prefix(alpha, prefix, L) if prefix else [""] + alpha:
            # the three base-product slots are enumerated up to length 6 (they run the same three predicates)
            slots = list(SLOTS) if len(s) <= 6 else ["short", "version", "type"]
            _check_string(s, acc, slots)
            n += 1
            if n == 5:
                acc.sample({"string": s, "short_ok": ids.short_ok(s), "version_ok": ids.version_ok(s)}, limit=2)
        acc.n["strings"] += n
    elif kind == "rt":
        _, short, tier, seed = unit
        for v in FIXED_VERSIONS:
            for t in ids.RELEASE_TYPES_DOC:
                _check_rt(short, v, t, None, acc)
        acc.sample({"roundtrip": [short, FIXED_VERSIONS[2], "updates"]}, limit=1)
    elif kind == "rtbp":
        _, _, tier, seed = unit
        shorts = valid_shorts(4, seed)
        full = [(s, v, t) for s in shorts for v in FIXED_VERSIONS for t in ids.RELEASE_TYPES_DOC]
        lo = ids.LOWER[seed % 26]
        red_shorts = [lo, "rhel", lo + "-" + lo, "fedora-server-23"]
        red_versions = ["1", "7.1", "rawhide", "mega", "eus"]
        reduced = [(s, v, t) for s in red_shorts for v in red_versions for t in ids.RELEASE_TYPES_DOC]
        fixed3 = [(lo, "1", "ga"), ("rhel", "7.1", "updates-testing"), (lo + "-" + lo, "mega", "eus")]
        pairs = itertools.chain(
            ((r, b) for r in full for b in fixed3),
            ((r, b) for r in fixed3 for b in full),
            ((r, b) for r in reduced for b in reduced),
            ((r, b) for r in (reduced if tier == "thorough" else []) for b in full),
        )
        for r, b in pairs:
            _check_rt(r[0], r[1], r[2], list(b), acc)
        acc.sample({"roundtrip_with_base_product": [list(reduced[7]), list(fixed3[1])]}, limit=1)


def replay(case):
    if case["kind"] == "pred":
        return eval_pred(case["which"], case["s"])
    if case["kind"] == "slot":
        return eval_slot(case["slot"], case["s"])
    return eval_roundtrip(case["short"], case["version"], case["type"], case["bp"])


# ---- known findings ---------------------------------------------------------------------------

def _ga_with_dashed_short(case, observed):
    """The release-ID grammar cannot tell 'a-b' + version from short 'a' + version 'b' + type: the only
    parts that come back wrong belong to an ID part whose type is ga and whose short name has a dash."""
    if case.get("kind") != "rt" or observed["created"] != ["ok", observed["model_id"]]:
        return False
    if observed["parsed"][0] != "ok":
        return False
    got, want = observed["parsed"][1], observed["model_parts"]
    if set(got) != set(want):
        return False
    for prefix, part in (("", (case["short"], case["version"], case["type"])),
                         ("bp_", tuple(case["bp"]) if case["bp"] else None)):
        if part is None:
            continue
        wrong = any(got[prefix + k] != want[prefix + k] for k in ("short", "version", "type"))
        if wrong and not (part[2] == "ga" and "-" in part[0]):
            return False
    return True


KNOWN = {"ga_with_dashed_short": _ga_with_dashed_short}


def describe(tier):
    L = 6 if tier == "quick" else 8
    return {
        "rule": "all strings of length <= %d over 7 character-class representatives (lower, upper, digit, '-', '.', '@', "
                "other) x 3 predicates x 6 create_release_id slots (base-product slots up to length 6), compared with "
                "hand-written DFAs; create->parse round trip over all valid shorts of length <= 4 over {letter, digit, '-'} "
                "+ 4 fixed shorts x 13 versions x 9 types, and with base products on crossed grids.  Non-trivial: a string "
                "accepted by some predicate or rejected only at its last character; a round trip whose id needs the "
                "known-type suffix search (dashed short or non-ga type)." % L,
        "bound": "string length <= %d; shorts <= 4 chars (+4 fixed); %s base-product cross" % (L, "full x reduced" if tier == "thorough" else "reduced"),
        "exhaustive": True,
        "assumptions": ["character classes are represented by one member each (rotated by VERIF_SEED)",
                        "every plain round trip is preceded by a parse of an unrelated layered id (hidden state between calls)",
                        "newline is not part of the alphabet ('$' in the patterns also matches before a trailing newline)"],
    }
