"""C07 - documents violating a documented constraint are rejected on load.

Bounded-exhaustive single corruption of valid current-version DOCUMENTS of every format: replace one
value anywhere by a value outside its documented domain, swap the header type, mangle the version,
delete one required key or section.  Oracle: loads() raises; where the reader documents a coercion the
successfully loaded object must be writable and carry an in-domain value at that position.
"""
import copy
import json

from mc.build import ci as CI
from mc.build import im as IM
from mc.build import misc as MISC
from mc.build import ti as TI
from mc.core.util import call
from mc.models import ini
from mc.models import validator_table as VT

ID = "C07"
LEVEL = "exploration"
REQUIRED_OUTCOMES = ["older-version:value:rejected", "value:rejected", "value:coerced-in-domain", "type-swap:rejected", "type-swap-1.0:no-claim",
                     "version:rejected", "deletion:rejected", "treeinfo:value:rejected", "discinfo:rejected"]

TYPES = {"composeinfo": "productmd.composeinfo", "images": "productmd.images", "rpms": "productmd.rpms",
         "modules": "productmd.modules", "extra_files": "productmd.extra_files", "treeinfo": "productmd.treeinfo",
         "discinfo": "productmd.discinfo"}
BAD_VERSIONS = ["1", "1.x", "1.2.3", ".1", "", 12, None]


def new_obj(fmt):
    import productmd.composeinfo, productmd.images, productmd.rpms, productmd.modules      # noqa
    import productmd.extra_files, productmd.treeinfo, productmd.discinfo                    # noqa
    return {"composeinfo": productmd.composeinfo.ComposeInfo, "images": productmd.images.Images, "rpms": productmd.rpms.Rpms,
            "modules": productmd.modules.Modules, "extra_files": productmd.extra_files.ExtraFiles,
            "treeinfo": productmd.treeinfo.TreeInfo, "discinfo": productmd.discinfo.DiscInfo}[fmt]()


BASES = {
    "composeinfo:forest": ("composeinfo", lambda: CI.build(CI.seed_forest()).dumps()),
    "composeinfo:layered": ("composeinfo", lambda: CI.build(CI.seed_layered()).dumps()),
    "composeinfo:flat": ("composeinfo", lambda: CI.build(CI.seed_flat()).dumps()),
    "images:grid": ("images", lambda: IM.build(IM.seed_grid()).dumps()),
    "images:v11": ("images", lambda: IM.build(IM.seed_v11()).dumps()),
    "rpms": ("rpms", lambda: MISC.rpms().dumps()),
    "modules": ("modules", lambda: MISC.modules().dumps()),
    "extra_files": ("extra_files", lambda: MISC.extra_files().dumps()),
    "treeinfo:nested": ("treeinfo", lambda: TI.dumps(TI.build(TI.seed_nested()))),
    "treeinfo:layered": ("treeinfo", lambda: TI.dumps(TI.build(TI.seed_layered()))),
    "treeinfo:flat": ("treeinfo", lambda: TI.dumps(TI.build(TI.seed_flat()))),
    "discinfo": ("discinfo", lambda: MISC.discinfo().dumps()),
}
def get_base(base):
    """a named base document, or '["univ", fmt, seed, [edits]]': the document written for a state of the format's universe"""
    if base in BASES:
        return BASES[base]
    _, fmt, seed, edits = json.loads(base)
    mod = {"ci": CI, "im": IM, "ti": TI}[fmt]

    def build():
        spec = dict(mod.SEEDS)[seed]()
        for e in edits:
            spec = mod.apply_spec(spec, e)
        return TI.dumps(mod.build(spec)) if fmt == "ti" else mod.build(spec).dumps()
    return {"ci": "composeinfo", "im": "images", "ti": "treeinfo"}[fmt], build


QUICK = ["composeinfo:forest", "composeinfo:layered", "images:grid", "images:v11", "rpms", "modules", "extra_files",
         "treeinfo:nested", "treeinfo:layered", "discinfo"]


# ---- JSON documents: positions = (label, path, kind, values) --------------------------------------

def get_path(doc, path):
    for p in path:
        doc = doc[p]
    return doc


def set_path(doc, path, value):
    get_path(doc, path[:-1])[path[-1]] = value


def del_path(doc, path):
    del get_path(doc, path[:-1])[path[-1]]


def json_positions(fmt, doc):
    """yield (label, path, kind or None, explicit values or None): the fixed corruption table, then - for every position that has
    a documented domain - values BORROWED from other places of the same document that use the same key name (a release version
    as header version, a variant id as compose id, ...): valid where they stand, out of domain here"""
    by_key = {}

    def collect(node):
        if isinstance(node, dict):
            for k, v in node.items():
                if isinstance(v, str):
                    by_key.setdefault(k, set()).add(v)
                collect(v)
        elif isinstance(node, list):
            for v in node:
                collect(v)
    collect(doc)
    for label, path, kind, values in _json_positions(fmt, doc):
        yield label, path, kind, values
        if kind is not None and isinstance(path[-1], str):
            here = get_path(doc, path)
            borrowed = [v for v in sorted(by_key.get(path[-1], ())) if v != here and not VT.in_domain(kind, v)][:3]
            if borrowed:
                yield label + ":borrowed", path, kind, borrowed
    rel = doc["payload"].get("release", {}).get("version")
    if isinstance(rel, str) and rel.count(".") != 1:
        yield "header.version:borrowed-release-version", ["header", "version"], None, [rel]


def _json_positions(fmt, doc):
    pay = doc["payload"]
    for f in ("id", "type", "date", "respin"):
        yield "compose." + f, ["payload", "compose", f], "compose." + f, None
    if "label" in pay["compose"]:
        yield "compose.label", ["payload", "compose", "label"], "compose.label", None
    if fmt == "composeinfo":
        for f in ("name", "short", "version", "type", "internal"):
            yield "release." + f, ["payload", "release", f], "release." + f, None
        if "base_product" in pay:
            yield "release.is_layered", ["payload", "release", "is_layered"], "release.is_layered", None
            for f in ("name", "short", "version", "type"):
                yield "base_product." + f, ["payload", "base_product", f], "release." + f, None
        children = {"%s-%s" % (v["uid"], c) for v in pay["variants"].values() for c in v.get("variants", [])}
        for uid in sorted(pay["variants"]):
            base = ["payload", "variants", uid]
            for f in ("id", "name", "type", "arches"):
                yield "variants[%s].%s" % (uid, f), base + [f], "variant." + f, None
            yield "variants[%s].uid" % uid, base + ["uid"], None, ["Other-%s" % uid.split("-")[-1]]
            if uid in children:
                yield ("variants[%s].arches+foreign" % uid, base + ["arches"], None,
                       [sorted(pay["variants"][uid]["arches"] + ["ppc64"])])
            if pay["variants"][uid]["type"] == "layered-product":
                for f in ("name", "short", "version", "type"):
                    yield "variants[%s].release.%s" % (uid, f), base + ["release", f], "release." + f, None
    if fmt == "images":
        for v in sorted(pay["images"]):
            for a in sorted(pay["images"][v]):
                for i, img in enumerate(pay["images"][v][a]):
                    base = ["payload", "images", v, a, i]
                    for f in sorted(img):
                        yield "images[%s][%s][%d].%s" % (v, a, i, f), base + [f], "image." + f, None
                    if not img.get("unified"):
                        yield ("images[%s][%s][%d].additional_variants:nonunified" % (v, a, i), base + ["additional_variants"], None,
                               [["Client"]])
                    copies = sum(1 for vv in pay["images"].values() for lst in vv.values() for other in lst if other["path"] == img["path"])
                    if copies > 1:
                        yield ("images[%s][%s][%d].checksums:conflicting-copy" % (v, a, i), base + ["checksums"], None,
                               [{"sha256": "f" * 64}])


def json_required(fmt, doc):
    """paths whose deletion must make the load fail"""
    pay = doc["payload"]
    out = [["header"], ["header", "version"], ["header", "type"], ["payload"], ["payload", "compose"]]
    out += [["payload", "compose", f] for f in ("id", "type", "date", "respin")]
    if fmt == "composeinfo":
        out += [["payload", "release"]] + [["payload", "release", f] for f in ("name", "version", "short")]
        if "base_product" in pay:
            out += [["payload", "base_product"]] + [["payload", "base_product", f] for f in ("name", "version", "short")]
        out.append(["payload", "variants"])
        for uid in sorted(pay["variants"]):
            out += [["payload", "variants", uid, f] for f in ("id", "uid", "name", "type", "arches", "paths")]
            if pay["variants"][uid]["type"] == "layered-product":
                out += [["payload", "variants", uid, "release"]]
    elif fmt == "images":
        out.append(["payload", "images"])
        for v in sorted(pay["images"]):
            for a in sorted(pay["images"][v]):
                for i in range(len(pay["images"][v][a])):
                    out += [["payload", "images", v, a, i, f] for f in
                            ("path", "mtime", "size", "volume_id", "type", "arch", "disc_number", "disc_count", "checksums",
                             "implant_md5", "bootable", "subvariant")]
    else:
        out.append(["payload", fmt])
    return out


_WARM = {}


def _warm_up(fmt):
    """Another reader of the same class loads (and writes) a VALID file of the format first: what it leaves behind in the process
    (memoised header checks, per-class caches, 'seen this already' marks) must not let the damaged file through."""
    if fmt not in _WARM:
        _WARM[fmt] = [b[1]() for name, b in sorted(BASES.items()) if b[0] == fmt][:2]
    for text in _WARM[fmt]:
        other = new_obj(fmt)
        call(other.loads, text)
        call(TI.dumps, other) if fmt == "treeinfo" else call(other.dumps)


def load_outcome(fmt, text, path=None, kind=None):
    """-> {'load': 'rejected:<Exc>' | 'ok', ...}; after a successful load: can it be written, what sits at `path` now?"""
    import io
    _warm_up(fmt)
    obj = new_obj(fmt)
    call(lambda: (obj.header.version_tuple, str(obj), repr(obj.header)))       # a caller may look at a new reader before using it
    r = call(obj.loads, text)
    via = "loads"
    if r[0] != "ok":
        # the other entry point: load() of an open file (load() and loads() do not share their validation step)
        obj = new_obj(fmt)
        r2 = call(obj.load, io.StringIO(text))
        if r2[0] != "ok":
            return {"load": "rejected", "exception": r[1]}
        via = "load(file object) - loads() rejects the same text"
    out = {"load": "ok", "accepted_by": via}
    w = call(TI.dumps, obj) if fmt == "treeinfo" else call(obj.dumps)
    out["rewritable"] = w[0] == "ok"
    if w[0] == "ok" and path is not None and fmt not in ("treeinfo", "discinfo"):
        try:
            now = get_path(json.loads(w[1]), path)
            out["value_now"] = now
            out["in_domain_now"] = VT.in_domain(kind, now) if kind else None
        except (KeyError, IndexError, TypeError):
            out["value_now"] = "<absent>"
            out["in_domain_now"] = kind in ("compose.label", "compose.final", "release.is_layered", "image.unified",
                                            "image.additional_variants")
    return out


OLDER = {"composeinfo": ["0.3", "1.0", "1.1"], "images": ["1.0", "1.1"], "rpms": ["1.0", "1.1"], "treeinfo": ["0.3", "1.0", "1.1"]}


def older_json(fmt, doc, ver):
    from mc.models import legacy
    conv = {"composeinfo": legacy.composeinfo, "images": legacy.images, "rpms": legacy.rpms}[fmt](copy.deepcopy(doc), ver)
    return None if conv is None else conv[0]


def eval_json(base, op, ver=None):
    """op = ['set', path, value] | ['del', path] | ['hdr', type, version]; ver: the corrupted document is first re-expressed in
    that older format version (-> {'load': 'not-carried'} when the older format has no place for the corrupted value)"""
    fmt, build = get_base(base)
    doc = json.loads(build())
    kind = op[3] if op[0] == "set" and len(op) > 3 else None
    if ver is not None and op[0] == "del":
        old = older_json(fmt, doc, ver)
        try:
            get_path(old, op[1])
        except (KeyError, IndexError, TypeError):
            return {"load": "not-carried"}                     # (the older format has no such key)
        del_path(old, op[1])
        return load_outcome(fmt, json.dumps(old))
    if ver is not None:
        clean = older_json(fmt, doc, ver)
        set_path(doc, op[1], copy.deepcopy(op[2]))
        try:
            old = older_json(fmt, doc, ver)
        except Exception:                                      # noqa  (the down-converter cannot digest the corrupted value)
            return {"load": "not-carried"}
        if old is None or clean is None or old == clean:
            return {"load": "not-carried"}
        return load_outcome(fmt, json.dumps(old), op[1], kind)
    if op[0] == "set":
        set_path(doc, op[1], copy.deepcopy(op[2]))
    elif op[0] == "rekey":
        d = get_path(doc, op[1])
        d[op[3]] = d.pop(op[2])
    elif op[0] == "del":
        del_path(doc, op[1])
    else:
        doc["header"]["type"], doc["header"]["version"] = op[1], op[2]
    return load_outcome(fmt, json.dumps(doc), op[1] if op[0] == "set" else None, kind)


# ---- treeinfo (INI) and discinfo (lines) ----------------------------------------------------------

def render(sections):
    return "".join("[%s]\n%s\n" % (name, "".join("%s = %s\n" % (k, v) for k, v in opts)) for name, opts in sections)


def ti_ops(text):
    """yield (label, op, expectation) with op = ['set', section, key, value] | ['delopt', s, k] | ['delsec', s] | ['addsec', s, [[k, v]]]"""
    doc = ini.as_dict(text)
    for v in ("1.", "1..1", "1.a"):
        yield "release.version", ["set", "release", "version", v]
        if "base_product" in doc:
            yield "base_product.version", ["set", "base_product", "version", v]
    if "is_layered" in doc["release"]:
        yield "release.is_layered", ["set", "release", "is_layered", "maybe"]
    for v in ("", ):
        yield "tree.arch", ["set", "tree", "arch", v]
    for v in ("abc", "", "12:30", "inf", "-Infinity", "1e999", "nan"):            # (no number, or a float that is not finite)
        yield "tree.build_timestamp", ["set", "tree", "build_timestamp", v]
    for sec in sorted(doc):
        if sec.startswith(("variant-", "addon-")):
            yield sec + ".id", ["set", sec, "id", "a-b"]
            for v in ("bogus", "layered-product", "Variant"):
                yield sec + ".type", ["set", sec, "type", v]
            if "parent" in doc[sec]:
                yield sec + ".uid", ["set", sec, "uid", "Other-%s" % doc[sec]["id"]]
        if sec.startswith("images-"):
            for k in sorted(doc[sec]):
                yield "%s[%s]" % (sec, k), ["set", sec, k, "/abs/images/%s" % k.replace(" ", "_")]
    yield "images-unreferenced", ["addsec", "images-zzz", [["kernel", "images/vmlinuz"]]]
    listed = [p for p in doc["tree"]["platforms"].split(",") if p]
    for p in listed:
        for sub in (p[:-1], p[1:], p[:3]):
            if sub and sub not in listed and "images-" + sub not in doc:
                yield "images-unreferenced", ["addsec", "images-" + sub, [["kernel", "images/vmlinuz"]]]
    if "stage2" in doc:
        for k in ("instimage", "mainimage"):
            yield "stage2." + k, ["set", "stage2", k, "/abs/stage2.img"]
    else:
        yield "stage2.mainimage", ["addsec", "stage2", [["mainimage", "/abs/stage2.img"]]]
        yield "stage2.instimage", ["addsec", "stage2", [["instimage", "/abs/inst.img"]]]
    if "checksums" in doc:
        yield "checksums[+absolute]", ["set", "checksums", "/abs/file.img", "sha256:" + "a" * 64]
    else:
        yield "checksums[+absolute]", ["addsec", "checksums", [["/abs/file.img", "sha256:" + "a" * 64]]]
    if "media" in doc:
        for k in ("discnum", "totaldiscs"):
            for v in ("x", "1.5", ""):
                yield "media." + k, ["set", "media", k, v]
        for k in ("discnum", "totaldiscs"):                      # a [media] section states both numbers
            yield "del media." + k, ["delopt", "media", k]
    # required sections / options
    yield "del[release]", ["delsec", "release"]
    for k in ("name", "version"):
        yield "del release." + k, ["delopt", "release", k]
    if "base_product" in doc:
        yield "del[base_product]", ["delsec", "base_product"]
        for k in ("name", "version", "short"):
            yield "del base_product." + k, ["delopt", "base_product", k]
    for k in ("arch", "platforms", "build_timestamp"):
        yield "del tree." + k, ["delopt", "tree", k]
    yield "del header.type", ["delopt", "header", "type"]
    for sec in sorted(doc):
        if sec.startswith(("variant-", "addon-")):
            yield "del[%s]" % sec, ["delsec", sec]
            for k in ("id", "uid", "name", "type"):
                yield "del %s.%s" % (sec, k), ["delopt", sec, k]


def eval_ti(base, op, ver=None):
    fmt, build = get_base(base)
    sections = [(n, [(k, v) for k, v in opts if not k.startswith(";")]) for n, opts in ini.parse(build())]
    if ver is not None:
        from mc.models import legacy
        clean = legacy.treeinfo(sections, ver)[0]
    if op[0] == "hdr":
        sections = [(n, [(k, (op[1] if k == "type" else op[2] if k == "version" else v)) for k, v in opts] if n == "header" else opts)
                    for n, opts in sections]
    elif op[0] == "set":
        found = False
        new = []
        for n, opts in sections:
            if n == op[1]:
                if any(k == op[2] for k, _ in opts):
                    opts = [(k, op[3] if k == op[2] else v) for k, v in opts]
                else:
                    opts = opts + [(op[2], op[3])]
                found = True
            new.append((n, opts))
        sections = new
        if not found:
            raise KeyError(op[1])
    elif op[0] == "delopt":
        sections = [(n, [(k, v) for k, v in opts if not (n == op[1] and k == op[2])]) for n, opts in sections]
    elif op[0] == "delsec":
        sections = [(n, opts) for n, opts in sections if n != op[1]]
    elif op[0] == "addsec":
        sections = sections + [(op[1], [tuple(kv) for kv in op[2]])]
    if ver is not None:
        old = legacy.treeinfo(sections, ver)[0]
        if old == clean:
            return {"load": "not-carried"}
        sections = old
    return load_outcome("treeinfo", render(sections))


def di_ops():
    base = MISC.discinfo().dumps().split("\n")
    for i, name in enumerate(("timestamp", "description", "arch", "disc_numbers")):
        vals = {"timestamp": ["abc", "", "0", "1,5"], "description": [""], "arch": [""], "disc_numbers": ["a,b", "1,,2", "1.5"]}[name]
        for v in vals:
            lines = list(base)
            lines[i] = v
            yield name, lines
    for n in (0, 1, 2):
        yield "truncated", base[:n]


def eval_di(lines):
    return load_outcome("discinfo", "\n".join(lines))


# ---- exploration --------------------------------------------------------------------------------

def units(tier, seed):
    us = [("base", b) for b in (QUICK if tier == "quick" else sorted(BASES))]
    if tier == "thorough":
        # the document written for every state within one edit of every seed is a base document, too
        for fmt, mod in (("ci", CI), ("im", IM), ("ti", TI)):
            for name, mk in mod.SEEDS:
                edits = mod.edits(mk())
                k = seed % max(len(edits), 1)
                edits = edits[k:] + edits[:k]
                for i in range(0, len(edits), 6):
                    us.append(("univ", fmt, name, edits[i:i + 6]))
    return us


def _judge_value(base, label, path, kind, value, o, acc, ver=None):
    case = {"kind": "json", "base": base, "op": ["set", path, value, kind], "ver": ver}
    if o["load"] == "rejected":
        acc.outcome("value:rejected" if ver is None else "older-version:value:rejected")
        return
    now = o.get("value_now")
    changed = type(now) is not type(value) or now != value
    ok = o.get("rewritable") and kind is not None and o.get("in_domain_now") and changed
    if ok:
        acc.outcome("value:coerced-in-domain")
        return
    acc.violation("loaded%s:%s" % ("" if ver is None else "-" + ver, kind or label.split(".")[-1]), case, o,
                  "%s%s with %s = %r was loaded successfully by %s (now: %r, writable: %s)"
                  % (base, "" if ver is None else " as a format %s document" % ver, label, value, o.get("accepted_by"), o.get("value_now"),
                     o.get("rewritable")))


DEGENERATE = {"json": ["{}", "[]", "null", "0", "false", '""', '{"header": {}}', '{"payload": {}}', '{"header": null, "payload": null}'],
              "treeinfo": ["", "\n", "[header]\n", "[general]\n", "# nothing\n"], "discinfo": ["", "\n", " \n \n"]}


def eval_degenerate(fmt, text):
    return load_outcome(fmt, text)


def run_unit(unit, acc):
    if unit[0] == "univ":
        _, f, name, edits = unit
        for e in edits:
            base = json.dumps(["univ", f, name, [e]])
            r = call(get_base(base)[1])
            if r[0] != "ok" or load_outcome(get_base(base)[0], r[1])["load"] != "ok":
                continue                                # (no valid document for this state)
            run_unit(("base", base), acc)
        return
    base = unit[1]
    fmt, build = get_base(base)
    for text in DEGENERATE["json" if fmt not in ("treeinfo", "discinfo") else fmt]:
        o = eval_degenerate(fmt, text)                       # documents with (almost) nothing in them lack every required section
        acc.ev()
        acc.nontriv((fmt, "degenerate", text))
        if o["load"] != "rejected":
            acc.violation("degenerate:" + fmt, {"kind": "degenerate", "fmt": fmt, "text": text}, o,
                          "the %s document %r (no required section at all) was loaded successfully" % (fmt, text))
        else:
            acc.outcome("deletion:rejected")
    if fmt == "discinfo":
        for name, lines in di_ops():
            o = eval_di(lines)
            acc.ev()
            acc.nontriv(("di", name, tuple(lines)))
            if o["load"] != "rejected":
                acc.violation("discinfo:" + name, {"kind": "di", "lines": lines}, o, ".discinfo with bad %s %r was loaded" % (name, lines))
            else:
                acc.outcome("discinfo:rejected")
        return
    others = [t for f, t in sorted(TYPES.items()) if f != fmt]
    if fmt == "treeinfo":
        text = build()
        for label, op in ti_ops(text):
            o = eval_ti(base, op)
            acc.ev()
            acc.nontriv((base, json.dumps(op)))
            if o["load"] != "rejected":
                acc.violation("treeinfo:" + label.split("[")[0].split(" ")[-1], {"kind": "ti", "base": base, "op": op}, o,
                              "%s with %s (%s) was loaded successfully" % (base, label, op))
            else:
                acc.outcome("deletion:rejected" if op[0].startswith("del") else "treeinfo:value:rejected")
            if op[0] in ("set", "addsec"):
                for ver in OLDER["treeinfo"]:                   # the same corrupted value in a document of an older format version
                    o = eval_ti(base, op, ver)
                    acc.ev()
                    if o["load"] == "not-carried":
                        continue
                    acc.nontriv((base, json.dumps(op), ver))
                    if o["load"] != "rejected":
                        acc.violation("treeinfo-%s:%s" % (ver, label.split("[")[0].split(" ")[-1]), {"kind": "ti", "base": base, "op": op, "ver": ver}, o,
                                      "%s as a format %s document with %s (%s) was loaded successfully" % (base, ver, label, op))
                    else:
                        acc.outcome("older-version:value:rejected")
        for t in others:
            for ver in ("1.0", "1.1", "1.2", "2.0"):
                o = eval_ti(base, ["hdr", t, ver])
                acc.ev()
                _judge_hdr(base, "ti", t, ver, o, acc)
        for ver in BAD_VERSIONS[:-2]:
            o = eval_ti(base, ["hdr", TYPES[fmt], ver])
            acc.ev()
            if o["load"] != "rejected":
                acc.violation("version", {"kind": "ti", "base": base, "op": ["hdr", TYPES[fmt], ver]}, o,
                              "%s with header version %r was loaded" % (base, ver))
            else:
                acc.outcome("version:rejected")
        acc.sample({"base": base, "corruption": ["set", "variant-Server", "type", "bogus"]}, limit=2)
        return
    doc = json.loads(build())
    for label, path, kind, values in json_positions(fmt, doc):
        vals = values if values is not None else VT.corrupt_values(kind)
        for value in vals:
            o = eval_json(base, ["set", path, value, kind])
            acc.ev()
            acc.nontriv((base, label, repr(value)))
            _judge_value(base, label, path, kind, value, o, acc)
            for ver in OLDER.get(fmt, []):                      # the same corrupted value in a document of an older format version
                if ver == "1.0" and "conflicting-copy" in (kind or "") + label:
                    continue                                    # (identity uniqueness is a rule of format 1.1 and later: C09)
                o = eval_json(base, ["set", path, value, kind], ver)
                acc.ev()
                if o["load"] == "not-carried":
                    continue
                acc.nontriv((base, label, repr(value), ver))
                _judge_value(base, label, path, kind, value, o, acc, ver)
    if fmt == "images":
        for v in sorted(doc["payload"]["images"]):
            for a in sorted(doc["payload"]["images"][v]):
                for new in ("src", "nosrc", "foo", "X86_64"):
                    o = eval_json(base, ["rekey", ["payload", "images", v], a, new])
                    acc.ev()
                    acc.nontriv((base, "rekey", v, a, new))
                    if o["load"] != "rejected":
                        acc.violation("arch-key", {"kind": "json", "base": base, "op": ["rekey", ["payload", "images", v], a, new]}, o,
                                      "%s with the tree arch key %s/%s renamed to %r was loaded" % (base, v, a, new))
                    else:
                        acc.outcome("value:rejected")
    for path in json_required(fmt, doc):
        o = eval_json(base, ["del", path])
        acc.ev()
        acc.nontriv((base, "del", json.dumps(path)))
        if o["load"] != "rejected":
            acc.violation("deletion", {"kind": "json", "base": base, "op": ["del", path]}, o,
                          "%s without required %s was loaded" % (base, "/".join(map(str, path))))
        else:
            acc.outcome("deletion:rejected")
        for ver in OLDER.get(fmt, []):
            o = eval_json(base, ["del", path], ver)
            acc.ev()
            if o["load"] == "not-carried":
                continue
            acc.nontriv((base, "del", json.dumps(path), ver))
            if o["load"] != "rejected":
                acc.violation("deletion-" + ver, {"kind": "json", "base": base, "op": ["del", path], "ver": ver}, o,
                              "%s as a format %s document without required %s was loaded" % (base, ver, "/".join(map(str, path))))
            else:
                acc.outcome("older-version:deletion:rejected")
    for t in others:
        for ver in ("1.0", "1.1", "1.2", "2.0"):
            o = eval_json(base, ["hdr", t, ver])
            acc.ev()
            _judge_hdr(base, "json", t, ver, o, acc)
    for ver in BAD_VERSIONS:
        o = eval_json(base, ["hdr", TYPES[fmt], ver])
        acc.ev()
        if o["load"] != "rejected":
            acc.violation("version", {"kind": "json", "base": base, "op": ["hdr", TYPES[fmt], ver]}, o,
                          "%s with header version %r was loaded" % (base, ver))
        else:
            acc.outcome("version:rejected")
    acc.sample({"base": base, "corruption": ["set", ["payload", "compose", "date"], "2016010"]}, limit=2)


def _judge_hdr(base, how, t, ver, o, acc):
    if ver == "1.0":
        acc.outcome("type-swap-1.0:no-claim")          # below the documented threshold: only recorded
        return
    acc.nontriv((base, "hdr", t, ver))
    if o["load"] != "rejected":
        acc.violation("type-swap", {"kind": how, "base": base, "op": ["hdr", t, ver]}, o,
                      "%s with header type %s at version %s was loaded" % (base, t, ver))
    else:
        acc.outcome("type-swap:rejected")


def replay(case):
    if case["kind"] == "degenerate":
        return eval_degenerate(case["fmt"], case["text"])
    if case["kind"] == "json":
        return eval_json(case["base"], case["op"], case.get("ver"))
    if case["kind"] == "ti":
        return eval_ti(case["base"], case["op"], case.get("ver"))
    return eval_di(case["lines"])


KNOWN = {}


def describe(tier):
    return {
        "rule": "for each base document (%s): (a) every validated value position (compose/release/base-product fields, every "
                "variant of the table incl. layered-product releases, misaligned UID, child arch outside the parent's, every image "
                "attribute in every cell, additional_variants on a non-unified image, different checksums on one copy of an image filed in several cells; treeinfo: versions, is_layered, tree arch/"
                "timestamp, variant id/type/uid, image and stage2 and checksum paths, unreferenced image platform, media numbers; "
                "discinfo lines) x every value of the corruption alphabet; (b) header type swapped for each of the 6 other formats at "
                "versions 1.1/1.2/2.0 (1.0: recorded only); (c) 7 mangled version strings; (d) every required key/section deleted.  "
                "Oracle: loads raises, or the loaded object is writable and carries an in-domain value other than the corrupt one at that "
                "position (documented coercions: bool(), int(), lower()).  Non-trivial: every corrupted document."
                % ", ".join(QUICK if tier == "quick" else sorted(BASES)),
        "bound": "exactly one corruption per document",
        "exhaustive": True,
        "assumptions": ["rpms/modules/extra-files payload tables are stored as given: only header and compose section are corrupted",
                        "treeinfo header and [tree] have a legacy fallback and are not 'required'"],
    }
