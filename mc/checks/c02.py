"""C02 - image manifests survive a write/read cycle unchanged (spec-space BFS, deviation bound k)."""
from mc.build import im as B
from mc.core import explorer
from mc.core.util import diff, exc_name

ID = "C02"
LEVEL = "model_checking"
REQUIRED_OUTCOMES = ["cycle:ok", "reloaded-start:ok", "edit-after-write:ok", "has:alias", "has:unified", "has:big-size", "has:3-in-cell",
                     "has:null-volume-id", "has:multi-checksum"]


class Universe(object):
    def __init__(self, seed=0):
        self.seed = seed

    def seeds(self):
        return [(n, f()) for n, f in B.SEEDS]

    def edits(self, spec):
        out = B.edits(spec, self.seed)
        # descriptions the documented rules REFUSE (additional variants on an image that is not unified): the property speaks of
        # what the library agrees to write - if it ever agrees, the image must come back as written; today it is refused
        for i, s in enumerate(spec["images"]):
            if not s["unified"] and not s["additional_variants"]:
                out.append(["unified", i, False, ["Client"]])
                out.append(["unified", i, False, ["Client", "Server"]])
        return out

    apply = staticmethod(B.apply_spec)
    canon = staticmethod(B.canon)


def spec_of(case):
    spec = dict(B.SEEDS)[case["seed"]]()
    for e in case["edits"]:
        spec = B.apply_spec(spec, e)
    return spec


def oracle(spec, obj):
    import productmd.images as pi
    problems = []
    try:
        text = obj.dumps()
    except (ValueError, TypeError) as exc:
        return "refused", ["dumps: %s" % exc_name(exc)]
    want = B.expected_observation(spec)
    back = pi.Images()
    try:
        back.loads(text)
    except Exception as exc:                                            # noqa
        return "bad", ["the written manifest cannot be read back: %s: %s" % (exc_name(exc), str(exc)[:160])]
    d = diff(B.observe(back), want)
    if d:
        problems.append("re-read manifest differs from what was written (observed != expected): " + "; ".join(d))
    try:
        if back.dumps() != text:
            problems.append("second write is not byte-identical")
    except Exception as exc:                                            # noqa
        problems.append("re-read manifest cannot be written: %s" % exc_name(exc))
    # the same cycle through ONE open file handle: dump(handle) then load(handle), no seek by the caller
    import io
    handle = io.StringIO()
    try:
        obj.dump(handle)
        again = pi.Images()
        again.load(handle)
        if diff(B.observe(again), want):
            problems.append("dump(handle) + load(same handle) gives a different manifest")
    except Exception as exc:                                            # noqa
        problems.append("dump(handle) + load(same handle) failed: %s" % exc_name(exc))
    return ("bad" if problems else "ok"), problems


def eval_case(case):
    import productmd.images as pi
    spec = spec_of(case)
    try:
        if case["mode"] == "scratch":
            obj = B.build(spec)
        elif case["mode"] == "live":
            # the parent state is built AND WRITTEN, then the last edit is made on that same live object: whatever the first
            # write left behind in the object (caches, a stamped header, sorted copies) must not show in the second file
            parent = spec_of({"seed": case["seed"], "edits": case["edits"][:-1]})
            try:
                obj = B.build(parent)
                obj.dumps()
            except (ValueError, TypeError) as exc:
                return {"status": "refused", "stage": "parent", "problems": ["the state before the edit is itself refused: %s" % exc_name(exc)]}
            obj.validate()
            str(obj.header.version_tuple)
            B.apply_obj(obj, case["edits"][-1], parent)
        else:
            parent = spec_of({"seed": case["seed"], "edits": case["edits"][:-1]})
            obj = pi.Images()
            try:
                try:
                    parent_text = B.build(parent).dumps()
                except (ValueError, TypeError) as exc:
                    return {"status": "refused", "stage": "parent", "problems": ["the state before the edit is itself refused: %s" % exc_name(exc)]}
                obj.loads(parent_text)
            except (ValueError, TypeError):
                raise
            except Exception as exc:                                    # noqa
                return {"status": "bad", "problems": ["the parent's written file cannot be read back: %s" % exc_name(exc)]}
            B.apply_obj(obj, case["edits"][-1], parent)
    except (ValueError, TypeError) as exc:
        return {"status": "refused", "problems": ["build: %s" % exc_name(exc)]}
    except (KeyError, IndexError, AttributeError) as exc:
        if case["mode"] == "scratch":
            raise
        return {"status": "bad", "problems": ["the re-read parent object does not hold what was written to it, the next "
                                              "edit cannot be applied: %s" % exc_name(exc)]}
    status, problems = oracle(spec, obj)
    return {"status": status, "problems": problems}


def bound(tier):
    return 1 if tier == "quick" else 2


def units(tier, seed):
    return [(u, tier, seed) for u in explorer.spec_units(Universe(seed), bound(tier))]


def run_unit(unit, acc):
    u, tier, seed = unit

    def visit(spec, trace, parent, last):
        scratch_status = None
        for mode in ("scratch", "reloaded", "live"):
            if mode != "scratch" and last is None:
                continue
            case = {"seed": trace[0], "edits": trace[1:], "mode": mode}
            o = eval_case(case)
            acc.ev()
            acc.trace()
            tag = {"scratch": "cycle", "reloaded": "reloaded-start", "live": "edit-after-write"}[mode]
            if mode == "scratch":
                scratch_status = o["status"]
            if o["status"] == "refused" and mode != "scratch" and scratch_status != "refused" and o.get("stage") != "parent":
                # the very same description is written when it is built from scratch: reached another way it must be writable too
                o = {"status": "bad", "problems": ["the description is written when built from scratch, but refused when reached through "
                                                    "%s: %s" % ("a re-read object" if mode == "reloaded" else "an object that had been written before", "; ".join(o["problems"]))]}
            if o["status"] == "refused":
                acc.outcome(tag + ":refused")
                continue
            if o["status"] == "bad":
                acc.violation(tag + ":" + (last[0] + ("-" + str(last[2]) if last[0] == "img" else "") if last else "seed"),
                              case, o, "%s via %s: %s" % (trace, mode, "; ".join(o["problems"])[:700]))
                acc.outcome(tag + ":bad")
            else:
                acc.outcome(tag + ":ok")
        idx_cells = {}
        for v, a, i in spec["cells"]:
            idx_cells.setdefault(i, set()).add((v, a))
        per_cell = {}
        for v, a, i in spec["cells"]:
            per_cell.setdefault((v, a), set()).add(i)
        if any(len(c) > 1 for c in idx_cells.values()):
            acc.outcome("has:alias")
        if any(s["unified"] and s["additional_variants"] for s in spec["images"]):
            acc.outcome("has:unified")
        if any(s["size"] > 2 ** 32 for s in spec["images"]):
            acc.outcome("has:big-size")
        if any(len(c) >= 3 for c in per_cell.values()):
            acc.outcome("has:3-in-cell")
        if any(s["volume_id"] is None for s in spec["images"]):
            acc.outcome("has:null-volume-id")
        if any(len(s["checksums"]) > 1 for s in spec["images"]):
            acc.outcome("has:multi-checksum")
        if len(spec["cells"]) > 1:
            acc.nontriv(B.canon(spec))
        if last is not None and last[0] in ("alias", "unified"):
            acc.sample({"seed": trace[0], "edits": trace[1:]}, limit=2)

    explorer.explore_unit(Universe(seed), u, bound(tier), acc, visit)


def replay(case):
    return eval_case(case)


KNOWN = {}


def describe(tier):
    return {
        "rule": "BFS over edit operations (set one of the 15 image attributes to each value of its alphabet - all supported types "
                "and formats read from the tree, null/non-empty volume id, null/32-hex implanted md5, 1 or 3 checksum types, sizes "
                "up to 2^33+1, disc number/count pairs, unified x additional_variants crossed; add a variant / arch / image with a "
                "fresh path (<= 3 per cell); file an existing image object in another cell; initial header version default/1.1/1.2; "
                "compose label/final and type/date/respin) from 3 seeds.  Every state: build -> dumps -> loads -> observe == spec "
                "(all 15 attributes per image, cells as multisets, compose section) -> dumps byte-identical; again from the re-loaded "
                "parent object.  Identity collisions with different checksums are C09's subject and filtered out.  Non-trivial: more "
                "than one placement.",
        "bound": "deviation bound k = %d edits from a seed; <= 3 variants x 3 arches, <= 3 images per cell, <= 7 images" % bound(tier),
        "exhaustive": True,
        "model_binding": "the spec (plain data) is the reference model; every explored state is built on the real library and its "
                         "re-read observation compared with the model",
        "assumptions": ["attribute alphabets are class representatives except type/format, which are complete"],
    }
