"""C08 - serialisation is canonical: output depends on content only.

(i)   all permutations of the construction order of each unordered part (one part at a time; pairs in the thorough tier);
(ii)  every iteration-order policy for every set the library creates (the name `set` is shadowed in the library's modules);
(iii) the whole battery under several real PYTHONHASHSEED values in separate interpreters;
(iv)  repeated dumps; plus an independent format lint and the caller-ordered lists.
"""
import hashlib
import itertools
import copy
import json
import math
import os
import subprocess
import sys

from mc.build import ci as CI
from mc.build import im as IM
from mc.build import misc as MISC
from mc.build import ti as TI
from mc.core.util import call, exc_name
from mc.models import ini

ID = "C08"
LEVEL = "model_checking"
REQUIRED_OUTCOMES = ["perm:identical", "setorder:identical", "setorder:on-load:identical", "hashseed:identical",
                     "repeat:identical", "lint:json", "lint:ini-sorted", "caller-order:kept", "reloaded-vs-scratch:identical", "written-vs-scratch:identical", "sparse:stable"]


# ---- owning set iteration order ------------------------------------------------------------------

def _key(x):
    return getattr(x, "path", None) or (x if isinstance(x, str) else repr(x))


def nth_perm(n, k):
    items = list(range(n))
    out = []
    for i in range(n, 0, -1):
        f = math.factorial(i - 1)
        out.append(items.pop((k // f) % i))
        k %= f
    return out


class OrderedProbeSet(set):
    """A set whose iteration order is dictated by the harness (policy = index of a permutation of the sorted elements)."""
    policy = None
    created = 0
    iterated = 0

    def __init__(self, *a):
        set.__init__(self, *a)
        OrderedProbeSet.created += 1

    def __iter__(self):
        items = sorted(set.__iter__(self), key=_key)
        n = len(items)
        if OrderedProbeSet.policy is None or n <= 1:
            return iter(items)
        OrderedProbeSet.iterated += 1
        if n <= 4:
            perm = nth_perm(n, OrderedProbeSet.policy % math.factorial(n))
        else:
            r = OrderedProbeSet.policy % n
            perm = list(range(r, n)) + list(range(r))
            if (OrderedProbeSet.policy // n) % 2:
                perm.reverse()
        return iter([items[i] for i in perm])


MODS = ["composeinfo", "images", "treeinfo"]


def shadow_sets(on):
    import productmd.composeinfo, productmd.images, productmd.treeinfo        # noqa
    for m in MODS:
        mod = getattr(productmd, m)
        if on:
            mod.set = OrderedProbeSet
        elif "set" in vars(mod):
            del mod.set


def lib_set(items):
    """the harness builds arch/platform sets with whatever `set` the library module currently sees"""
    import productmd.composeinfo
    return getattr(productmd.composeinfo, "set", set)(items)


# ---- contents: a list of parts; a part is a list of mutually order-independent build steps ----------

def ci_content(n):
    spec = CI.seed_layered() if n == 2 else CI.seed_flat()
    spec["variants"] = []
    tops = [["var", None, CI.vspec(v, "variant", ["x86_64", "i386", "aarch64", "ppc64le"][:4 if v == "A" else 2])] for v in ("A", "B", "C")]
    if n == 1:
        tops.append(["var", None, CI.vspec("Serveroptional", "optional", ["x86_64"], uid="Server-optional")])
    kids = [["var", "A", CI.vspec(c, t, ["i386", "x86_64"] if c != "z" else ["aarch64", "i386", "x86_64"], parent_uid="A")]
            for c, t in (("z", "addon"), ("x", "optional"), ("y", "layered-product"))]
    grand = [["var", "A-x", CI.vspec(c, "addon", ["x86_64"], parent_uid="A-x")] for c in ("q", "p", "r")]
    paths = [["path", "A", "os_tree", "x86_64", "A/x86_64/os"], ["path", "A", "os_tree", "i386", "A/i386/os"],
             ["path", "A", "packages", "aarch64", "A/aarch64/os/Packages"], ["path", "B", "isos", "i386", "B/i386/iso"]]
    return {"fmt": "ci", "spec": spec, "parts": [tops, kids, grand, paths][: 4 if n != 2 else 2] if n != 2 else [tops, kids, paths]}


def im_content(n):
    spec = IM.seed_one()
    spec["header"] = "1.2"
    spec["images"] = [IM.imgspec(i, path="Server/x86_64/iso/%s.iso" % name) for i, name in enumerate(("c-live", "a-dvd", "b-netinst", "d-boot"))]
    spec["images"][3].update({"unified": True, "additional_variants": ["Server", "Client", "Everything"]})
    if n == 0:
        # the same image published at a second location: everything but the path equals image 0 (legal: equal checksums)
        spec["images"][2] = dict(copy.deepcopy(spec["images"][0]), path=spec["images"][2]["path"])
    spec["cells"] = []
    in_cell = [["add", "Server", "x86_64", i] for i in (0, 1, 2, 3)][: 4 if n == 0 else 3]
    cells = [["add", "Client", "x86_64", 0], ["add", "Server", "aarch64", 1], ["add", "Workstation", "i386", 2]]
    alias = [["add", "Client", "i386", 3], ["add", "Everything", "x86_64", 3], ["add", "Client", "x86_64", 3]]
    return {"fmt": "im", "spec": spec, "parts": [in_cell, cells] if n == 0 else [in_cell, cells, alias]}


def rpm_content(n):
    ops = [["Server", "x86_64", "bash-0:4.3-1.x86_64", "S/x/bash.rpm", "AA", "binary", "bash-0:4.3-1.src"],
           ["Server", "x86_64", "bash-doc-0:4.3-1.noarch", "S/x/bash-doc.rpm", None, "binary", "bash-0:4.3-1.src"],
           ["Server", "x86_64", "zsh-0:5-1.x86_64", "S/x/zsh.rpm", "AA", "binary", "zsh-0:5-1.src"],
           ["Client", "i386", "bash-0:4.3-1.i686", "C/i/bash.rpm", "AA", "binary", "bash-0:4.3-1.src"]]
    return {"fmt": "rpms", "spec": None, "parts": [[["rpm"] + o for o in ops]]}


def mod_content(n):
    ops = [["Server", "x86_64", "perl:5.26", "tag", "S/x/perl.yaml", "binary", ["z-rpm", "a-rpm", "m-rpm"]],
           ["Server", "x86_64", "django:1.6", "tag", "S/x/django.yaml", "binary", ["d2", "d1"]],
           ["Client", "i386", "perl:5.26", "tag", "C/i/perl.yaml", "binary", ["z-rpm", "a-rpm"]]]
    # the same module again in other categories: its RPM list is extended in call order (content, not permuted)
    again = [["mod", "Server", "x86_64", "perl:5.26", "tag", "S/x/perl-debug.yaml", "debug", ["q-dbg", "b-dbg", "z-rpm", "k-dbg", "c-dbg"]]]
    return {"fmt": "modules", "spec": None, "parts": [[["mod"] + o for o in ops], again]}


def extra_content(n):
    blocks = [["extra", "Server", "x86_64", [["S/x/zzz", 1], ["S/x/aaa", 2], ["S/x/mmm", 3]]],
              ["extra", "Client", "i386", [["C/i/b", 1], ["C/i/a", 2]]],
              ["extra", "Server", "aarch64", [["S/a/GPL", 1]]]]
    return {"fmt": "extra", "spec": None, "parts": [blocks]}


def ti_content(n):
    spec = TI.seed_layered() if n == 1 else TI.seed_flat()
    spec["variants"], spec["images"], spec["checksums"] = [], {}, {}
    spec["tree"]["platforms"] = ["x86_64"] if n == 0 else []          # (content 1: the arch is only implied)
    tops = [["var", None, TI.vspec(v, "variant", paths={"packages": v + "/Packages", "repository": v})] for v in ("Server", "Client", "Workstation")]
    kids = [["var", "Server", TI.vspec(c, t, parent_uid="Server", paths={"packages": "k/" + c})]
            for c, t in (("opt", "optional"), ("HA", "addon"), ("extra", "variant"))]
    plats = [["platform", p] for p in ("xen", "efi", "ppc")]
    sums = [["checksum", p, "sha256", hashlib.sha256(p.encode()).hexdigest()] for p in ("docs/README", "images/boot.iso", "docs/readme", "Images/boot.iso")]
    # a key stored in the table as given (not through add()): another spelling of a path that is there already, with its own value
    sums = sums[:3] + [["rawsum", "./docs/README", "sha256", hashlib.sha256(b"other").hexdigest()]]
    table = [["image", "x86_64" if n == 0 else "efi", nm, "images/" + nm.lower()] for nm in ("kernel", "Kernel", "initrd", "boot.iso")]
    tables = [["image", p, "vmlinuz", "images/%s/vmlinuz" % p] for p in ("xen", "efi", "ppc")]
    return {"fmt": "ti", "spec": spec, "parts": [tops, kids, plats, sums, table, tables]}


CONTENTS = ([("ci", i, ci_content) for i in range(3)] + [("im", i, im_content) for i in range(2)] +
            [("rpms", 0, rpm_content), ("modules", 0, mod_content), ("extra", 0, extra_content)] +
            [("ti", i, ti_content) for i in range(2)])


def build(content, perms):
    """perms: {part index: permutation}; all other parts in listed order.  Returns the dumped text."""
    fmt, spec = content["fmt"], content["spec"]
    if fmt == "ci":
        obj = CI.build(spec)
    elif fmt == "im":
        obj = IM.build(spec)
        pool = [IM.mk_image(obj, s) for s in spec["images"]]
    elif fmt == "rpms":
        import productmd.rpms
        obj = MISC.set_compose(productmd.rpms.Rpms())
    elif fmt == "modules":
        import productmd.modules
        obj = MISC.set_compose(productmd.modules.Modules())
    elif fmt == "extra":
        import productmd.extra_files
        obj = MISC.set_compose(productmd.extra_files.ExtraFiles())
    else:
        obj = TI.build(spec)
    keymask = int(perms.get("keys") or 0)          # bit k: the k-th child variant is registered under its UID (add(..., variant_id=uid))
    nchild = 0
    for pi, part in enumerate(content["parts"]):
        order = perms.get(pi) or perms.get(str(pi)) or range(len(part))
        for k in order:
            st = part[k]
            by_uid = {}
            if st[0] == "var" and st[1] is not None:
                if keymask >> nchild & 1:
                    by_uid = {"variant_id": st[2]["uid"]}
                nchild += 1
            if st[0] == "var" and fmt == "ci":
                var = CI._mk_variant(obj, st[2])
                var.arches = lib_set(st[2]["arches"])
                (obj.variants if st[1] is None else obj[st[1]]).add(var, **by_uid)
            elif st[0] == "var":
                (obj.variants if st[1] is None else obj[st[1]]).add(TI._mk_variant(obj, st[2]), **by_uid)
            elif st[0] == "path":
                getattr(obj[st[1]].paths, st[2])[st[3]] = st[4]
            elif st[0] == "add":
                obj.add(st[1], st[2], pool[st[3]])
            elif st[0] in ("rpm", "mod"):
                obj.add(*[list(a) if isinstance(a, list) else a for a in st[1:]])
            elif st[0] == "extra":
                for path, size in st[3]:
                    obj.add(st[1], st[2], path, size, {"sha256": "a" * 64})
            elif st[0] == "platform":
                obj.tree.platforms.add(st[1])
            elif st[0] == "checksum":
                obj.checksums.add(st[1], st[2], st[3])
            elif st[0] == "rawsum":
                obj.checksums.checksums[st[1]] = [st[2], st[3]]
            elif st[0] == "image":
                obj.images.images.setdefault(st[1], {})[st[2]] = st[3]
    if fmt == "ci":
        obj.compose.id = obj.create_compose_id()
    return obj, (TI.dumps(obj) if fmt == "ti" else obj.dumps())


def new_like(fmt):
    import productmd.composeinfo, productmd.images, productmd.rpms, productmd.modules, productmd.extra_files, productmd.treeinfo   # noqa
    return {"ci": productmd.composeinfo.ComposeInfo, "im": productmd.images.Images, "rpms": productmd.rpms.Rpms,
            "modules": productmd.modules.Modules, "extra": productmd.extra_files.ExtraFiles,
            "ti": productmd.treeinfo.TreeInfo}[fmt]()


def content_of(ref):
    fmt, n = ref
    return [f for k, i, f in CONTENTS if (k, i) == (fmt, n)][0](n)


def digest(text):
    return hashlib.sha256(text.encode("utf-8")).hexdigest()[:16]


def eval_build(ref, perms, policy):
    """Build content `ref` with the given part permutations under set policy `policy` (None = sets not shadowed) and compare
    with the canonical-order build made in the same interpreter.  Verdict only: raw bytes may legitimately differ between
    interpreters when the property is violated."""
    canon = build(content_of(ref), {})[1]
    shadow_sets(policy is not None)
    OrderedProbeSet.policy = policy
    try:
        r = call(lambda: build(content_of(ref), perms)[1])
    finally:
        OrderedProbeSet.policy = None
        shadow_sets(False)
    return {"identical_to_canonical": r[0] == "ok" and r[1] == canon, "error": None if r[0] == "ok" else r[1]}


def eval_reload(ref, policy):
    """Load the canonical text under a set policy and dump again."""
    canon = build(content_of(ref), {})[1]
    shadow_sets(True)
    OrderedProbeSet.policy = policy
    try:
        obj = new_like(ref[0])
        r = call(obj.loads, canon)
        if r[0] == "ok":
            r = call((lambda: TI.dumps(obj)) if ref[0] == "ti" else obj.dumps)
    finally:
        OrderedProbeSet.policy = None
        shadow_sets(False)
    return {"identical_to_canonical": r[0] == "ok" and r[1] == canon, "error": None if r[0] == "ok" else r[1]}


def eval_repeat(ref):
    obj, text = build(content_of(ref), {})
    outs = [text]
    for _ in range(2):
        if ref[0] == "extra":
            import io
            for variant in sorted(obj.extra_files):          # a per-tree export is a dump, too
                for arch in sorted(obj.extra_files[variant]):
                    obj.dump_for_tree(io.StringIO(), variant, arch, "%s/%s" % (variant[:1], arch[:1]))
        outs.append(TI.dumps(obj) if ref[0] == "ti" else obj.dumps())
    out = {"all_identical": len(set(outs)) == 1}
    if ref[0] == "ti":
        # dumps that name a main variant in between: a later dump that names none must give the first bytes again
        for uid in sorted(v.uid for v in obj.variants.variants.values()):
            TI.dumps(obj, main_variant=uid)
        out["all_identical"] = out["all_identical"] and TI.dumps(obj) == text
    if ref[0] == "ti":
        # the object that has been dumped is given other content and dumped again: the bytes must be those of a NEW object with
        # that content (nothing of the earlier dumps - e.g. the old arch in the platform list - may stick to it)
        content = content_of(ref)
        for arch in ("aarch64", "ppc64le"):
            if obj.tree.arch == arch:
                continue
            obj.tree.arch = arch
            again = TI.dumps(obj)
            c2 = content_of(ref)
            c2["spec"]["tree"]["arch"] = arch
            fresh = build(c2, {})[0]
            fresh.tree.platforms = set(p for p in obj.tree.platforms if p in c2["spec"]["tree"]["platforms"] or
                                       any(st[0] == "platform" and st[1] == p for part in c2["parts"] for st in part))
            out["after_arch_change_like_fresh"] = again == TI.dumps(fresh)
            break
    return out


def _json_paths(node, prefix=()):
    if isinstance(node, dict):
        for k in sorted(node):
            yield prefix + (k,)
            for p2 in _json_paths(node[k], prefix + (k,)):
                yield p2
    elif isinstance(node, list):
        for i, item in enumerate(node):
            for p2 in _json_paths(item, prefix + (i,)):
                yield p2


def sparse_documents(fmt, canon):
    """every document that is the canonical file with ONE key (JSON) / one option or section (INI) left out"""
    if fmt == "ti":
        parsed = ini.parse(canon)

        def render(sections):
            return "".join("[%s]\n%s\n" % (name, "".join("%s = %s\n" % (k, v.replace("\n", "\n\t")) for k, v in opts)) for name, opts in sections)
        assert ini.parse(render(parsed)) == parsed
        for si, (sec, opts) in enumerate(parsed):
            yield ["section", sec], render(parsed[:si] + parsed[si + 1:])
            for oi, (opt, _) in enumerate(opts):
                yield ["option", sec, opt], render(parsed[:si] + [(sec, opts[:oi] + opts[oi + 1:])] + parsed[si + 1:])
        return
    doc = json.loads(canon)
    for path in _json_paths(doc):
        d2 = json.loads(canon)
        node = d2
        for k in path[:-1]:
            node = node[k]
        del node[path[-1]]
        yield list(path), json.dumps(d2)


def eval_sparse(ref, which=None):
    """Documents that leave something out: whatever loads must then be written the same way every time,
    and what it writes must be a fixed point (load + dump reproduces it)."""
    fmt = ref[0]
    canon = build(content_of(ref), {})[1]
    d = (lambda o: TI.dumps(o)) if fmt == "ti" else (lambda o: o.dumps())
    out = {"tried": 0, "loaded": 0, "unstable": [], "not_fixed_point": []}
    for path, text in sparse_documents(fmt, canon):
        if which is not None and path != which:
            continue
        out["tried"] += 1
        obj = new_like(fmt)
        if call(obj.loads, text)[0] != "ok":
            continue
        w = [call(lambda: d(obj)) for _ in range(3)]
        if w[0][0] != "ok":
            continue
        out["loaded"] += 1
        if not (w[0] == w[1] == w[2]):
            out["unstable"].append(path)
            continue
        again = new_like(fmt)
        r = call(again.loads, w[0][1])
        if r[0] != "ok" or call(lambda: d(again)) != w[0]:
            out["not_fixed_point"].append(path)
    return out


def lint(fmt, text):
    problems = []
    if fmt == "ti":
        secs = ini.parse(text)
        names = [n for n, _ in secs]
        if names != sorted(names):
            problems.append("sections are not sorted: %s" % names)
        for n, opts in secs:
            keys = [k for k, _ in opts]
            if keys != sorted(keys):
                problems.append("options of [%s] are not sorted: %s" % (n, keys))
            for k, v in opts:
                if k in ("platforms", "variants", "addons") and v and v.split(",") != sorted(v.split(",")):
                    problems.append("[%s] %s is not a sorted list: %s" % (n, k, v))
    else:
        want = json.dumps(json.loads(text), indent=4, sort_keys=True, separators=(",", ": "))
        if text != want:
            problems.append("JSON text is not in sorted-keys / 4-space-indent form")
    return problems


def eval_lint(ref):
    _, text = build(content_of(ref), {})
    problems = lint(ref[0], text)
    doc = None if ref[0] == "ti" else json.loads(text)
    order = []
    if ref[0] == "extra":
        order = [[i["file"] for i in doc["payload"]["extra_files"]["Server"]["x86_64"]], ["S/x/zzz", "S/x/aaa", "S/x/mmm"]]
    elif ref[0] == "modules":
        order = [doc["payload"]["modules"]["Server"]["x86_64"]["perl:5.26"]["rpms"],
                 ["z-rpm", "a-rpm", "m-rpm", "q-dbg", "b-dbg", "z-rpm", "k-dbg", "c-dbg"]]
    elif ref[0] == "im":
        imgs = [i for i in doc["payload"]["images"]["Server"]["x86_64"] if i.get("unified")]
        order = [imgs[0]["additional_variants"] if imgs else None, ["Server", "Client", "Everything"]] if ref[1] == 0 else []
        paths = [i["path"] for i in doc["payload"]["images"]["Server"]["x86_64"]]
        if paths != sorted(paths):
            problems.append("images of a cell are not sorted by path: %s" % paths)
    if order and order[0] != order[1]:
        problems.append("caller-ordered list changed order: %s, given %s" % (order[0], order[1]))
    return {"problems": problems, "caller_order_checked": bool(order)}


def eval_cross(fmt, seed, edit, live=False):
    """bytes(build(spec + edit)) == bytes(reload(build(spec)) + edit);  live: == bytes(build(spec), written twice and
    validated, + edit on that same object)"""
    mod = {"ci": CI, "im": IM, "ti": TI}[fmt]
    spec = dict(mod.SEEDS)[seed]()
    after = mod.apply_spec(spec, edit)
    d = (lambda o: TI.dumps(o)) if fmt == "ti" else (lambda o: o.dumps())
    a = call(lambda: d(mod.build(after)))
    if a[0] != "ok":
        return {"scratch": a[1]}
    if live:
        obj = mod.build(spec)
        if call(lambda: (d(obj), obj.validate(), d(obj)))[0] != "ok":
            return {"scratch": "the state before the edit cannot be written"}
        if fmt == "im" and edit[0] == "hdr":
            return {"scratch": "header edits are made before the first write"}
    else:
        obj = new_like(fmt)
        obj.loads(d(mod.build(spec)))
    try:
        if fmt == "ci":
            mod.apply_obj(obj, edit, after)
        elif fmt == "im":
            mod.apply_obj(obj, edit, spec)
        else:
            mod.apply_obj(obj, edit)
        b = call(lambda: d(obj))
    except (KeyError, IndexError, AttributeError, ValueError, TypeError) as exc:
        b = ["exc", exc_name(exc)]
    return {"scratch": "ok", "identical": b[0] == "ok" and a[1] == b[1], "reloaded_error": None if b[0] == "ok" else b[1]}


def battery():
    """Digest of every canonical and a few permuted builds - run in separate interpreters under different hash seeds."""
    out = {}
    for fmt, n, _ in CONTENTS:
        c = content_of((fmt, n))
        out["%s%d" % (fmt, n)] = digest(build(c, {})[1])
        for pi, part in enumerate(c["parts"]):
            out["%s%d/p%d-rev" % (fmt, n, pi)] = digest(build(c, {pi: list(range(len(part)))[::-1]})[1])
        obj = new_like(fmt)
        obj.loads(build(c, {})[1])
        out["%s%d/reload" % (fmt, n)] = digest(TI.dumps(obj) if fmt == "ti" else obj.dumps())
    return out


def eval_hashseed(s):
    env = dict(os.environ, PYTHONHASHSEED=str(s), PYTHONDONTWRITEBYTECODE="1", PYTHONUTF8="1")
    base = battery()                       # this interpreter (PYTHONHASHSEED as the check was started)
    p = subprocess.run([sys.executable, "-c", "import json,sys; sys.path.insert(0, %r); from mc.core.runner import bind_repo; bind_repo(); "
                        "from mc.checks import c08; print('BATTERY ' + json.dumps(c08.battery(), sort_keys=True))"
                        % os.path.dirname(os.path.dirname(os.path.dirname(os.path.abspath(__file__))))],
                       env=env, stdout=subprocess.PIPE, stderr=subprocess.PIPE, universal_newlines=True, timeout=600)
    line = [l for l in p.stdout.splitlines() if l.startswith("BATTERY ")]
    if not line:
        raise RuntimeError("hash-seed battery failed under seed %d: %s" % (s, p.stderr[-800:]))
    other = json.loads(line[0][8:])
    return {"n": len(other),
            "differs_from_this_interpreter": sorted(kk for kk in base if other.get(kk) != base[kk]),
            "differs_from_canonical": sorted(kk for kk in other if other[kk] != other[kk.split("/")[0]])}


NONDETERMINISM_IS_VIOLATION = True      # output that differs between identical runs is exactly what C08 forbids


# ---- exploration --------------------------------------------------------------------------------

def units(tier, seed):
    us = []
    for fmt, n, _ in CONTENTS:
        us.append(("perm", fmt, n, tier))
        us.append(("sets", fmt, n, tier))
        us.append(("misc", fmt, n))
    for s in range(4 if tier == "quick" else 32):
        us.append(("hashseed", s))
    for fmt, mod in (("ci", CI), ("im", IM), ("ti", TI)):
        for name, _ in mod.SEEDS:
            us.append(("cross", fmt, name))
    return us


def run_unit(unit, acc):
    k = unit[0]
    if k == "perm":
        _, fmt, n, tier = unit
        ref = [fmt, n]
        c = content_of(ref)
        acc.state((fmt, n, "canonical"))
        singles = []
        for pi, part in enumerate(c["parts"]):
            for perm in itertools.permutations(range(len(part))):
                singles.append({pi: list(perm)})
        combos = list(singles)
        nchildren = sum(1 for part in c["parts"] for st in part if st[0] == "var" and st[1] is not None)
        if fmt == "ti" and nchildren:                          # (composeinfo.Variant.add takes no key)
            for mask in range(1, 2 ** min(nchildren, 4)):        # which children are registered under their UID rather than their id
                combos.append({"keys": mask})
        if tier == "thorough":
            for a, b in itertools.combinations(range(len(c["parts"])), 2):
                for pa in itertools.permutations(range(len(c["parts"][a]))):
                    for pb in itertools.permutations(range(len(c["parts"][b]))):
                        combos.append({a: list(pa), b: list(pb)})
        for perms in combos:
            o = eval_build(ref, perms, None)
            acc.ev()
            acc.trans()
            acc.trace()
            acc.state((fmt, n, json.dumps(perms, sort_keys=True)))
            if not o["identical_to_canonical"]:
                acc.violation("construction-order:%s:part%s" % (fmt, "+".join(map(str, sorted(perms, key=str)))),
                              {"kind": "build", "ref": ref, "perms": {str(k2): v for k2, v in perms.items()}, "policy": None}, o,
                              "%s content %d built with part order %s does not give the bytes of the canonical-order build (%s; steps: %s)"
                              % (fmt, n, perms, o["error"] or "different text",
                                 [c["parts"][p][i][:3] for p in perms if p != "keys" for i in perms[p]][:6]))
            else:
                acc.outcome("perm:identical")
            acc.nontriv((fmt, n, json.dumps(perms, sort_keys=True)))
        acc.sample({"format": fmt, "content": n, "part_permutation": combos[-1], "parts": [len(p) for p in c["parts"]]}, limit=2)
    elif k == "sets":
        _, fmt, n, tier = unit
        ref = [fmt, n]
        for policy in range(24 if tier == "quick" else 48):
            OrderedProbeSet.iterated = 0
            o = eval_build(ref, {}, policy)
            acc.ev()
            acc.trans()
            if not o["identical_to_canonical"]:
                acc.violation("set-order:" + fmt, {"kind": "build", "ref": ref, "perms": {}, "policy": policy}, o,
                              "%s content %d built under set-iteration policy %d does not give the canonical bytes (%s)"
                              % (fmt, n, policy, o["error"] or "different text"))
            elif fmt in ("ci", "im", "ti"):
                acc.outcome("setorder:identical")
            o = eval_reload(ref, policy)
            acc.ev()
            if not o["identical_to_canonical"]:
                acc.violation("set-order-on-load:" + fmt, {"kind": "reload", "ref": ref, "policy": policy}, o,
                              "%s content %d loaded and re-dumped under set-iteration policy %d does not give the canonical bytes (%s)"
                              % (fmt, n, policy, o["error"] or "different text"))
            elif fmt in ("ci", "im", "ti"):
                acc.outcome("setorder:on-load:identical")
            acc.nontriv((fmt, n, "policy", policy))
        acc.n["probe_sets_created"] += OrderedProbeSet.created
    elif k == "misc":
        _, fmt, n = unit
        ref = [fmt, n]
        o = eval_repeat(ref)
        acc.ev()
        if not o["all_identical"]:
            acc.violation("repeat:" + fmt, {"kind": "repeat", "ref": ref}, o, "%s content %d: three successive dumps of one object differ" % (fmt, n))
        elif o.get("after_arch_change_like_fresh") is False:
            acc.violation("repeat-then-change:" + fmt, {"kind": "repeat", "ref": ref}, o,
                          "%s content %d: after three dumps the tree arch was changed; the next dump differs from the dump of a new "
                          "object with the same content" % (fmt, n))
        else:
            acc.outcome("repeat:identical")
        o2 = eval_sparse(ref)
        acc.ev(o2["tried"])
        acc.n["sparse_documents_loaded"] += o2["loaded"]
        for kind in ("unstable", "not_fixed_point"):
            for path in o2[kind]:
                acc.violation("sparse:%s:%s" % (fmt, kind), {"kind": "sparse", "ref": ref, "path": path}, {kind: [path]},
                              "%s content %d read from a file that leaves out %s: %s" % (fmt, n, path, {
                                  "unstable": "three successive dumps of the loaded object differ",
                                  "not_fixed_point": "what it writes is not reproduced by loading and writing it again"}[kind]))
        if o2["loaded"] and not o2["unstable"] and not o2["not_fixed_point"]:
            acc.outcome("sparse:stable")
        o = eval_lint(ref)
        acc.ev()
        if o["problems"]:
            acc.violation("lint:" + fmt, {"kind": "lint", "ref": ref}, o, "%s content %d: %s" % (fmt, n, "; ".join(o["problems"])))
        else:
            acc.outcome("lint:ini-sorted" if fmt == "ti" else "lint:json")
            if o["caller_order_checked"]:
                acc.outcome("caller-order:kept")
    elif k == "hashseed":
        s = unit[1]
        o = eval_hashseed(s)
        acc.ev(o["n"])
        acc.trans(o["n"])
        if o["differs_from_this_interpreter"] or o["differs_from_canonical"]:
            acc.violation("hash-seed", {"kind": "hashseed", "seed": s}, o,
                          "under PYTHONHASHSEED=%d these dumps differ: %s %s"
                          % (s, o["differs_from_this_interpreter"][:5], o["differs_from_canonical"][:5]))
        else:
            acc.outcome("hashseed:identical")
        acc.nontriv(("hashseed", s))
    else:
        _, fmt, name = unit
        mod = {"ci": CI, "im": IM, "ti": TI}[fmt]
        spec = dict(mod.SEEDS)[name]()
        for e in mod.edits(spec):
          for live in (False, True):
            o = eval_cross(fmt, name, e, live)
            acc.ev()
            acc.trans()
            if o["scratch"] != "ok":
                continue
            how = "an object that had been written before the edit" if live else "a re-loaded object"
            if not o["identical"]:
                acc.violation("%s-vs-scratch:%s:%s" % ("written" if live else "reloaded", fmt, e[0]),
                              {"kind": "cross", "fmt": fmt, "seed": name, "edit": e, "live": live}, o,
                              "%s %s + %s: the same content reached through %s dumps to different bytes than built from scratch (%s)"
                              % (fmt, name, e, how, o["reloaded_error"] or "different text"))
            else:
                acc.outcome("written-vs-scratch:identical" if live else "reloaded-vs-scratch:identical")


def replay(case):
    k = case["kind"]
    if k == "build":
        return eval_build(case["ref"], case["perms"], case["policy"])
    if k == "reload":
        return eval_reload(case["ref"], case["policy"])
    if k == "repeat":
        return eval_repeat(case["ref"])
    if k == "lint":
        return eval_lint(case["ref"])
    if k == "sparse":
        o = eval_sparse(case["ref"], which=case["path"])
        return {kind: o[kind] for kind in ("unstable", "not_fixed_point") if o[kind]}
    if k == "cross":
        return eval_cross(case["fmt"], case["seed"], case["edit"], case.get("live", False))
    return eval_hashseed(case["seed"])


KNOWN = {}


def describe(tier):
    return {
        "rule": "10 contents (3 composeinfo, 2 images, rpms, modules, extra files, 2 treeinfo), each with >= 3 elements in every unordered "
                "part (top-level variants, children, grandchildren, path assignments; images per cell, cells, aliased placements; RPM adds; "
                "module adds; extra-file cells; tree variants, child variants of 3 types, platforms, checksums and image-table entries "
                "incl. names differing only in case, image platforms).  (i) every permutation of each part%s; (ii) 24%s global "
                "set-iteration policies (all permutations for sets of <= 4 elements) for every set the library creates while building and "
                "while loading (`set` shadowed in productmd.composeinfo/images/treeinfo); (iii) the battery of canonical, reversed and "
                "re-loaded dumps in separate interpreters under PYTHONHASHSEED 0..%d; (iv) 3 successive dumps; lint with independent code "
                "(JSON sorted keys/4-space indent, INI sections and options sorted, image cells sorted by path) and caller-ordered lists; "
                "(v) content reached through a re-loaded object dumps to the same bytes as the same content built from scratch (k = 1 edits "
                "of the C01/C02/C04 universes).  Non-trivial: every non-identity permutation / policy / seed."
                % (", pairs of parts jointly" if tier == "thorough" else "", "/48" if tier == "thorough" else "", 3 if tier == "quick" else 31),
        "bound": "parts of <= 4 elements permuted completely; one part at a time%s" % (" and in pairs" if tier == "thorough" else ""),
        "exhaustive": True,
        "model_binding": "the canonical-order build of the same content is the reference; every permuted build runs the real library",
        "assumptions": ["a hash seed can influence output only through the iteration order of a hash-ordered container; dicts are "
                        "insertion-ordered, so owning set iteration order + construction-order permutations cover all seeds for the "
                        "set sizes explored; (iii) ties that argument to the real interpreter"],
    }
