"""C03 - rpms / modules / extra-files manifests survive a write/read cycle unchanged.

The history explorer of C12 restricted to VALID add calls, one level deeper; at every reachable state the
manifest is written, re-read and compared with the reference layout model (not only with another dump).
"""
import json

from mc.checks import c12 as H

ID = "C03"
LEVEL = "model_checking"
REQUIRED_OUTCOMES = ["rpms:cycle-ok", "modules:cycle-ok", "extra:cycle-ok", "rpms:multi-variant", "rpms:epoch-nonzero",
                     "rpms:null-sigkey", "modules:4-part-uid", "modules:several-categories", "extra:several-checksums"]


def depth(tier):
    return 4 if tier == "quick" else 6


def units(tier, seed):
    us = [("arches", None), ("exotic", None)]
    for b in ("rpms", "modules", "extra"):
        d = depth(tier) + (1 if b == "extra" else 0)
        if b == "rpms" and tier == "thorough":
            d = 5                                   # 17 valid rpm adds: depth 5 already gives ~8 000 states
        hists = H.source_states(b, d, valid_only=True)           # source states; every valid call is then tried from each of them
        k = seed % len(hists)
        hists = hists[k:] + hists[:k]
        chunk = 8 if tier == "quick" else 40
        for i in range(0, len(hists), chunk):
            us.append((b, hists[i:i + chunk]))
    return us


def exotic_ops():
    """add calls whose values are not JSON numbers/strings: accepted by add() (which stores them as given); such a manifest is
    either refused by the writer or must come back exactly as built - it may never be written as something else"""
    import decimal
    return [("extra", ["extra", "Server", "x86_64", "Server/x86_64/os/GPL", decimal.Decimal("18092"), {"sha256": "a" * 64}]),
            ("extra", ["extra", "Server", "x86_64", "Server/x86_64/os/GPL", 18092, {"sha256": b"abcdef"}]),
            ("extra", ["extra", "Server", "x86_64", "Server/x86_64/os/GPL", 1.5, {"sha256": "a" * 64}]),
            ("rpms", ["rpms", "Server", "x86_64", "bash-0:4.3-1.fc23.x86_64", b"p/bash.rpm", None, "binary", H.BASH_SRC]),
            ("modules", ["modules", "Server", "x86_64", "perl:5.26", "tag", "p/perl.yaml", "binary", ("perl-0:5.26-1.x86_64",)]),
            ("modules", ["modules", "Server", "x86_64", "perl:5.26", "tag", "p/perl.yaml", "binary", [b"perl-0:5.26-1.x86_64"]])]


def eval_exotic(i):
    import copy
    builder, op = exotic_ops()[i]
    b = H.BUILDERS[builder]
    obj = H.misc.set_compose(b["new"]())
    r = H.call(obj.add, *copy.deepcopy(op[1:]))
    if r[0] != "ok":
        return {"add": "refused"}
    w = H.call(obj.dumps)
    if w[0] != "ok":
        return {"add": "ok", "write": "refused"}
    back = b["new"]()
    r = H.call(back.loads, w[1])
    same = r[0] == "ok" and getattr(back, b["attr"]) == getattr(obj, b["attr"])
    return {"add": "ok", "write": "ok", "read_back_equal": bool(same)}


def run_unit(unit, acc):
    builder, hists = unit
    if builder == "exotic":
        for i, (b, op) in enumerate(exotic_ops()):
            o = eval_exotic(i)
            acc.ev()
            if o.get("write") == "ok" and not o["read_back_equal"]:
                acc.violation("cycle:exotic-value", {"kind": "exotic", "i": i}, o,
                              "%s manifest built by add%r was written although the file format cannot hold that value, and is read back as something else"
                              % (b, tuple(op[1:]),))
            else:
                acc.outcome("exotic:" + ("refused" if o.get("write") != "ok" else "exact"))
        return
    if builder == "arches":
        from mc.models import ids
        for arch in ids.BINARY_ARCHES_DOC:
            for b, op in (("rpms", ["rpms", "Server", arch, "bash-0:4.3-1.fc23.x86_64", "p/bash.rpm", None, "binary", H.BASH_SRC]),
                          ("modules", ["modules", "Server", arch, "perl:5.26", "tag", "p/perl.yaml", "binary", ["x"]]),
                          ("extra", ["extra", "Server", arch, "Server/GPL", 1, {"sha256": "a" * 64}])):
                state, problems, reasons = H.run_history(b, [op], cycle=True)
                acc.ev()
                acc.trace()
                if problems:
                    acc.violation("cycle:arch", {"kind": "hist", "builder": b, "hist": [op], "cycle": True}, {"problems": problems},
                                  "%s manifest for the documented arch %r: %s" % (b, arch, problems[0][:300]))
                else:
                    acc.outcome("%s:cycle-ok" % b)
        return
    menu = H.menu(builder, valid_only=True)
    for src_hist in hists:
      for op in [None] + menu:
        hist = src_hist if op is None else src_hist + [op]
        if op is None and src_hist:
            continue                                   # (reached as a transition from its own source state)
        state, problems, reasons = H.run_history(builder, hist, cycle=True)
        acc.ev()
        acc.trace()
        acc.trans()
        acc.state((builder, H.key_of(state)))
        if problems:
            acc.violation("cycle:" + builder, {"kind": "hist", "builder": builder, "hist": hist, "cycle": True},
                          {"problems": problems}, "%s built by %s: %s" % (builder, hist, problems[0][:600]))
            continue
        acc.outcome("%s:cycle-ok" % builder)
        if len(hist) >= 2:
            # the same history with the manifest written and re-read INTO ITSELF before the last add
            _, problems, _ = H.run_history(builder, hist, cycle=True, reload_before_last=True)
            acc.ev()
            if problems:
                acc.violation("cycle-after-self-reload:" + builder, {"kind": "hist", "builder": builder, "hist": hist, "cycle": True, "reload": True},
                              {"problems": problems}, "%s built by %s (re-read into itself before the last add): %s" % (builder, hist, problems[0][:600]))
        text = json.dumps(state)
        if builder == "rpms":
            if len(state) > 1:
                acc.outcome("rpms:multi-variant")
            if "ceph-2:" in text:
                acc.outcome("rpms:epoch-nonzero")
            if '"sigkey": null' in text:
                acc.outcome("rpms:null-sigkey")
        elif builder == "modules":
            if "20180101:abcdef" in text:
                acc.outcome("modules:4-part-uid")
            if any(len(e["modulemd_path"]) > 1 for v in state.values() for a in v.values() for e in a.values()):
                acc.outcome("modules:several-categories")
        else:
            if any(len(i["checksums"]) > 1 for v in state.values() for a in v.values() for i in a):
                acc.outcome("extra:several-checksums")
        if len(hist) >= 2:
            acc.nontriv((builder, H.key_of(state)))
        if len(hist) == 3:
            acc.sample({"builder": builder, "history": hist}, limit=3)


def replay(case):
    if case.get("kind") == "exotic":
        return eval_exotic(case["i"])
    return H.replay(case)


KNOWN = {}


def describe(tier):
    return {
        "rule": "every sequence of VALID add calls from the C12 menus (every valid call from every distinct state reachable in fewer calls), one manifest per documented architecture and builder, (rpms: 17 calls over 3 cells, source packages with binary, "
                "debuginfo and source sub-packages, epochs 2 and 10, names with dashes and digits, null / upper / mixed-case signing keys, "
                "'.rpm' suffixes and directory prefixes; modules: 2-, 3-, 4-part UIDs in 3 categories over 2 cells; extra files with 1 "
                "and 3 checksum types, repeated entries, each tree exported with dump_for_tree before the cycle), deduplicated on the model state.  At every reachable state: the real object "
                "is stepped in lockstep with the layout model, written, re-read into a fresh object, the re-read mapping compared "
                "with the MODEL's mapping, compose section intact, second write byte-identical, header type/version current.  "
                "Non-trivial: a state built by >= 2 calls.",
        "bound": "history depth <= %d (extra files +1; rpms capped at 5 in the thorough tier)" % depth(tier),
        "exhaustive": True,
        "model_binding": "layout model stepped in lockstep with the real object on every call; re-read mapping compared with the model",
        "assumptions": ["argument alphabets are the C12 menus"],
    }
