"""C10 - source content is always filed under binary architectures.

(i) every Images.add / Rpms.add call over architecture classes on small states;
(ii) ALL images documents (1.0 / 1.1) with <= 2 variants whose arch sets are subsets of {x86_64, i386, src};
(iii) ALL rpms 0.3 documents with <= 2 variants, binary arches within {x86_64, i386}, source packages within {p, q}.
Reference: a plain re-filing model written from the property text.
"""
import copy
import itertools
import json

from mc.build import im as B
from mc.core.util import call, diff

ID = "C10"
LEVEL = "model_checking"
REQUIRED_OUTCOMES = ["add:accepted", "add:refused", "images-doc:refiled", "images-doc:src-only-skipped",
                     "images-1.2-src:rejected", "rpms-doc:refiled", "rpms-doc:src-entry-unreferenced"]

ARCH_CLASSES = ["x86_64", "i386", "noarch", "src", "nosrc", "foo", "X86_64", "", "src ", None]
BINARY_OK = {"x86_64", "i386", "noarch"}
COMPOSE = {"id": "Fedora-20-20131212.0", "type": "production", "date": "20131212", "respin": 0}
SRC_KEYS = ("src", "nosrc")


# ---- (i) add calls -------------------------------------------------------------------------------

def eval_images_add(pre, arch):
    import productmd.images as pi
    im = pi.Images()
    im.header.version = "1.2"
    objs = [B.mk_image(im, B.imgspec(n)) for n in range(3)]
    for v, a, i in pre:
        im.add(v, a, objs[i])
    before = B.observe(im)["cells"]
    r = call(im.add, "Server", arch, objs[2])
    if r[0] != "ok":
        r2 = call(im.add, "Server", arch, objs[2])      # a refused call, repeated at once and once more with another image
        r3 = call(im.add, "Server", arch, objs[1])
        if r2[0] == "ok" or r3[0] == "ok":
            r = ("exc", "refused the first time, accepted when repeated")
    after = B.observe(im)["cells"]
    return {"result": "ok" if r[0] == "ok" else r[1], "unchanged": before == after,
            "arch_keys": sorted({a for v in after for a in after[v]})}


def eval_rpms_add(pre, arch, srpm):
    import productmd.rpms as pr
    r = pr.Rpms()
    for v, a in pre:
        r.add(v, a, "bash-0:4.3-1.x86_64", "Packages/b/bash.rpm", None, "binary", "bash-0:4.3-1.src")
    before = copy.deepcopy(r.rpms)
    if srpm:
        res = call(r.add, "Server", arch, "bash-0:4.3-1.src", "Source/bash.src.rpm", "ABCD", "source")
    else:
        res = call(r.add, "Server", arch, "bash-doc-0:4.3-1.noarch", "Packages/b/bash-doc.rpm", "ABCD", "binary", "bash-0:4.3-1.src")
    if res[0] != "ok":
        # a refused call, repeated at once, and once more for another package
        res2 = call(r.add, "Server", arch, "bash-0:4.3-1.src", "Source/bash.src.rpm", "ABCD", "source") if srpm else \
            call(r.add, "Server", arch, "bash-doc-0:4.3-1.noarch", "Packages/b/bash-doc.rpm", "ABCD", "binary", "bash-0:4.3-1.src")
        res3 = call(r.add, "Server", arch, "zsh-0:5.0-1.src", "Source/zsh.src.rpm", None, "source")
        if res2[0] == "ok" or res3[0] == "ok":
            res = ("exc", "refused the first time, accepted when repeated")
    return {"result": "ok" if res[0] == "ok" else res[1], "unchanged": before == r.rpms,
            "arch_keys": sorted({str(a) for v in r.rpms for a in r.rpms[v]})}


# ---- (ii) images documents ----------------------------------------------------------------------

def image_entry(variant, arch, n, version):
    d = B.imgspec(n, path="%s/%s/iso/%s-%s-%d.iso" % (variant, arch, variant, arch, n), arch=arch,
                  type="dvd" if arch == "src" else "netinst", disc_number=n + 1, disc_count=2,
                  subvariant=variant, checksums=dict(B.CHK1))
    d.pop("unified")
    d.pop("additional_variants")
    if version == "1.0":
        d.pop("subvariant")
    return d


def variant_layouts(deep=False):
    """Every arch layout of one variant: binary arches absent / present-empty / with one image, src absent / 1 / 2 images
    (deep: a third binary arch, which sorts before 'src' and the others)."""
    out = []
    for x, i, s, a in itertools.product((None, 0, 1), (None, 0, 1), (None, 1, 2), (None, 0, 1) if deep else (None,)):
        if x is None and i is None and s is None and a is None:
            continue
        lay = {"x86_64": x, "i386": i, "src": s}
        if deep:
            lay["aarch64"] = a
        out.append(lay)
    return out


def images_doc(layouts, version):
    """layouts = [(variant, layout)]"""
    imgs = {}
    for variant, lay in layouts:
        for arch, n in lay.items():
            if n is None:
                continue
            imgs.setdefault(variant, {})[arch] = [image_entry(variant, arch, k, version) for k in range(n)]
    hdr = {"version": version}
    if version != "1.0":
        hdr["type"] = "productmd.images"
    return {"header": hdr, "payload": {"compose": dict(COMPOSE), "images": imgs}}


def images_expected(doc):
    """Re-filing model: every source image under each binary arch of its variant; binary entries unchanged."""
    version = doc["header"]["version"]
    out = {}
    skipped = 0
    for variant, arches in doc["payload"]["images"].items():
        binaries = [a for a in arches if a not in SRC_KEYS]
        if not binaries:
            skipped += 1
            continue
        for a in binaries:
            lst = [copy.deepcopy(e) for e in arches[a]] + [copy.deepcopy(e) for e in arches.get("src", [])]
            for e in lst:
                e.setdefault("subvariant", "")
                e.setdefault("unified", False)
                e.setdefault("additional_variants", [])
            if lst:
                out.setdefault(variant, {})[a] = sorted(lst, key=lambda d: json.dumps(d, sort_keys=True))
    return out, skipped


def eval_images_doc(doc, mode="fresh"):
    """mode 'fresh': loads() into a new object; 'reused': into an object that has already loaded a (current, empty) manifest;
    'second-consumer': the same parsed document is deserialized by two new objects, the second one is judged."""
    import productmd.images as pi
    im = pi.Images()
    if mode == "reused":
        first = images_doc([["Zother", {"x86_64": 1, "i386": None, "src": None}]], "1.2")     # (a current manifest WITH an image: add() runs)
        im.loads(json.dumps(first))
        for image in list(im.images["Zother"]["x86_64"]):        # ... and the caller has used the object since: add() and a header query
            im.add("Zother", "x86_64", image)
        im.header.version_tuple
        r = call(im.loads, json.dumps(doc))
    elif mode == "second-consumer":
        parsed = json.loads(json.dumps(doc))
        call(pi.Images().deserialize, parsed)
        r = call(im.deserialize, parsed)
    elif mode == "fresh":
        # the same document with its arch tables written in sorted key order ('src' between i386 and x86_64) and in reversed
        # order ('src' first): the re-filing must not depend on where the 'src' table stands in the file
        r = call(im.loads, json.dumps(doc))
        if r[0] == "ok":
            base = B.observe(im)["cells"]
            for how in ("sorted", "reversed"):
                d2 = json.loads(json.dumps(doc))
                for v in d2["payload"]["images"]:
                    t = d2["payload"]["images"][v]
                    keys = sorted(t) if how == "sorted" else list(reversed(list(t)))
                    d2["payload"]["images"][v] = {k: t[k] for k in keys}
                other = pi.Images()
                r2 = call(other.loads, json.dumps(d2))
                if r2[0] != "ok" or B.observe(other)["cells"] != base:
                    im = other                   # (judge the deviating reading: it is compared with the model below)
                    r = r2
                    break
    else:
        r = call(im.loads, json.dumps(doc))
    if r[0] != "ok":
        return {"load": r[1]}
    cells = {v: c for v, c in B.observe(im)["cells"].items() if v != "Zother"}
    w = call(im.dumps)
    dumped_keys = None
    if w[0] == "ok":
        payload = json.loads(w[1])["payload"]["images"]
        dumped_keys = sorted({a for v in payload for a in payload[v]})
    return {"load": "ok", "cells": cells, "dump": "ok" if w[0] == "ok" else w[1], "dumped_arch_keys": dumped_keys}


# ---- (iii) rpms 0.3 documents -------------------------------------------------------------------

NEVR = {"p": ("pkg-p", "0:1.0-1"), "q": ("q-lib", "2:3.1-4.el7")}
SRPMS = {"p": "pkg-p-0:1.0-1.src", "q": "q-lib-2:3.1-4.el7.nosrc"}             # (q is a nosrc source package)
# how the document spells the source package q (both in the binary tables and in the src table): zero-padded epoch + '.rpm'
SPELLED = {"p": SRPMS["p"], "q": "q-lib-02:3.1-4.el7.nosrc.rpm"}


def rpms_variant_layouts():
    """binary arches (non-empty subset of {x86_64, i386}) each listing any subset of {p, q}; src table: absent or any subset."""
    subsets = [(), ("p",), ("q",), ("p", "q")]
    out = []
    for ax, ai in itertools.product([None] + subsets, [None] + subsets):
        if ax is None and ai is None:
            continue
        for src in [None] + subsets:
            out.append({"x86_64": ax, "i386": ai, "src": src})
    return out


def rpms_doc(layouts):
    man = {}
    for variant, lay in layouts:
        for arch in ("x86_64", "i386"):
            if lay[arch] is None:
                continue
            cell = man.setdefault(variant, {}).setdefault(arch, {})
            for s in lay[arch]:
                name, evr = NEVR[s]
                cell[SPELLED[s]] = {
                    "%s-%s.%s" % (name, evr, arch): {"path": "%s/%s/os/Packages/%s.%s.rpm" % (variant, arch, s, arch),
                                                     "sigkey": "ABCDEF12", "type": "package"},
                    "%s-debuginfo-%s.%s" % (name, evr, arch): {"path": "%s/%s/debug/%s.rpm" % (variant, arch, s),
                                                               "sigkey": None, "type": "debug"},
                }
        if lay["src"] is not None:
            tab = man.setdefault(variant, {}).setdefault("src", {})
            for s in lay["src"]:
                tab[SPELLED[s]] = {"path": "%s/source/SRPMS/%s.src.rpm" % (variant, s), "sigkey": "ABCDEF12"}
    return {"header": {"version": "0.3"}, "payload": {"compose": dict(COMPOSE), "manifest": man}}


def _canon(nevra):
    from mc.models import nvra
    return nvra.canonical(nvra.split_nevra(nevra))


def rpms_expected(doc):
    out = {}
    unreferenced = 0
    for variant, arches in doc["payload"]["manifest"].items():
        src = arches.get("src", {})
        used = set()
        for arch, srpms in arches.items():
            if arch in SRC_KEYS:
                continue
            for srpm, rpms in srpms.items():
                cell = out.setdefault(variant, {}).setdefault(arch, {}).setdefault(_canon(srpm), {})
                for nevra, d in rpms.items():
                    cell[nevra] = {"path": d["path"], "sigkey": d["sigkey"].lower() if d["sigkey"] else None,
                                   "category": "binary" if d["type"] == "package" else d["type"]}
                if srpm in src:
                    used.add(srpm)
                    cell[_canon(srpm)] = {"path": src[srpm]["path"], "sigkey": src[srpm]["sigkey"].lower(), "category": "source"}
        unreferenced += len(set(src) - used)
    return out, unreferenced


def eval_rpms_doc(doc, mode="fresh"):
    import productmd.rpms as pr
    r = pr.Rpms()
    if mode == "reused":
        r.loads(json.dumps({"header": {"type": "productmd.rpms", "version": "1.2"}, "payload": {"compose": dict(COMPOSE), "rpms": {}}}))
        r.header.version_tuple                                    # (the caller has looked at the header since)
        res = call(r.loads, json.dumps(doc))
    elif mode == "second-consumer":
        parsed = json.loads(json.dumps(doc))
        call(pr.Rpms().deserialize, parsed)
        res = call(r.deserialize, parsed)
    else:
        res = call(r.loads, json.dumps(doc))
    if res[0] != "ok":
        return {"load": res[1]}
    w = call(r.dumps)
    keys = None
    version = None
    if w[0] == "ok":
        d = json.loads(w[1])
        keys = sorted({a for v in d["payload"]["rpms"] for a in d["payload"]["rpms"][v]})
        version = d["header"]["version"]
    return {"load": "ok", "rpms": copy.deepcopy(r.rpms), "dump": "ok" if w[0] == "ok" else w[1],
            "dumped_arch_keys": keys, "dumped_version": version}


# ---- exploration --------------------------------------------------------------------------------

def units(tier, seed):
    us = [("adds",)]
    lays = variant_layouts(tier == "thorough")
    for ver in ("1.0", "1.1", "1.2"):
        us.append(("img1", ver, tier == "thorough"))
        for k in range(len(lays)):
            us.append(("img2", ver, k, tier == "thorough"))
    rl = rpms_variant_layouts()
    us.append(("rpm1",))
    for k in range(len(rl)):
        us.append(("rpm2", k))
    return us


def _check_images_doc(layouts, ver, acc):
    for mode in MODES:
        _check_images_doc_mode(layouts, ver, acc, mode)


MODES = ["fresh", "reused", "second-consumer"]


def _check_images_doc_mode(layouts, ver, acc, mode):
    doc = images_doc(layouts, ver)
    o = eval_images_doc(doc, mode)
    acc.ev()
    acc.trans()
    acc.trace()
    acc.state(("img", ver, mode, json.dumps(layouts, sort_keys=True)))
    case = {"kind": "imgdoc", "layouts": layouts, "version": ver, "mode": mode}
    has_src = any(lay["src"] for _, lay in layouts)
    if ver == "1.2":
        if has_src:
            if o["load"] == "ok":
                acc.violation("images-1.2-src", case, o, "a 1.2 images document with a 'src' architecture was accepted")
            else:
                acc.outcome("images-1.2-src:rejected")
        return
    if o["load"] != "ok":
        acc.violation("images-doc-rejected", case, o, "images %s document %s (%s) rejected: %s" % (ver, layouts, mode, o["load"]))
        return
    want, skipped = images_expected(doc)
    if skipped:
        acc.outcome("images-doc:src-only-skipped")
    got = {v: d for v, d in o["cells"].items() if v in want or v not in [x for x, lay in layouts
                                                                          if lay["x86_64"] is None and lay["i386"] is None]}
    d = diff(got, want)
    if d:
        acc.violation("images-doc-refiling", case, o, "images %s document %s (%s): %s" % (ver, layouts, mode, "; ".join(d)[:600]))
    bad_keys = [a for v in o["cells"] for a in o["cells"][v] if a in SRC_KEYS]
    if bad_keys or (o["dumped_arch_keys"] is not None and any(a in SRC_KEYS for a in o["dumped_arch_keys"])):
        acc.violation("images-doc-srckey", case, o, "source architecture key survives load/dump of %s" % (layouts,))
    if o["dump"] != "ok":
        acc.violation("images-doc-dump", case, o, "converted manifest cannot be written: %s" % o["dump"])
    if has_src and not d:
        acc.outcome("images-doc:refiled")
        acc.nontriv(("img", ver, json.dumps(layouts, sort_keys=True)))


def _check_rpms_doc(layouts, acc):
    for mode in MODES:
        _check_rpms_doc_mode(layouts, acc, mode)


def _check_rpms_doc_mode(layouts, acc, mode):
    doc = rpms_doc(layouts)
    o = eval_rpms_doc(doc, mode)
    acc.ev()
    acc.trans()
    acc.trace()
    acc.state(("rpm", mode, json.dumps(layouts, sort_keys=True)))
    case = {"kind": "rpmdoc", "layouts": layouts, "mode": mode}
    if o["load"] != "ok":
        acc.violation("rpms-doc-rejected", case, o, "rpms 0.3 document %s (%s) rejected: %s" % (layouts, mode, o["load"]))
        return
    want, unref = rpms_expected(doc)
    d = diff(o["rpms"], want)
    if d:
        acc.violation("rpms-doc-refiling", case, o, "rpms 0.3 document %s (%s): %s" % (layouts, mode, "; ".join(d)[:600]))
    if any(a in SRC_KEYS for v in o["rpms"] for a in o["rpms"][v]) or \
            (o["dumped_arch_keys"] is not None and any(a in SRC_KEYS for a in o["dumped_arch_keys"])):
        acc.violation("rpms-doc-srckey", case, o, "source architecture key survives load/dump of %s" % (layouts,))
    if o["dump"] != "ok":
        acc.violation("rpms-doc-dump", case, o, "converted manifest cannot be written: %s" % o["dump"])
    if unref:
        acc.outcome("rpms-doc:src-entry-unreferenced")
    if not d and any(lay["src"] for _, lay in layouts):
        acc.outcome("rpms-doc:refiled")
        acc.nontriv(("rpm", json.dumps(layouts, sort_keys=True)))


def run_unit(unit, acc):
    k = unit[0]
    if k == "adds":
        pres = [[], [["Server", "x86_64", 0]], [["Client", "i386", 0], ["Server", "x86_64", 1]]]
        for pre in pres:
            for arch in ARCH_CLASSES:
                o = eval_images_add(pre, arch)
                acc.ev()
                acc.trans()
                case = {"kind": "imgadd", "pre": pre, "arch": arch}
                _judge_add(o, arch, case, acc, "Images.add")
        for pre in ([], [["Server", "x86_64"]], [["Client", "i386"], ["Server", "x86_64"]]):
            for arch in ARCH_CLASSES:
                for srpm in (False, True):
                    o = eval_rpms_add(pre, arch, srpm)
                    acc.ev()
                    acc.trans()
                    _judge_add(o, arch, {"kind": "rpmadd", "pre": pre, "arch": arch, "srpm": srpm}, acc, "Rpms.add")
        from mc.models import ids
        for arch in ids.BINARY_ARCHES_DOC:
            for what, o in (("Images.add", eval_images_add([], arch)), ("Rpms.add", eval_rpms_add([], arch, False))):
                acc.ev()
                acc.trans()
                if o["result"] != "ok":
                    acc.violation("add-binary-refused", {"kind": "imgadd" if what == "Images.add" else "rpmadd", "pre": [], "arch": arch, "srpm": False}, o,
                                  "%s under documented binary arch %r refused: %s" % (what, arch, o["result"]))
                else:
                    acc.outcome("add:accepted")
        for arch in ("armv6hlarmv6l", "x86", "s390 s390x", "x86_64 ", "ppc64l"):
            for what, o in (("Images.add", eval_images_add([], arch)), ("Rpms.add", eval_rpms_add([], arch, False))):
                acc.ev()
                _judge_add(o, arch, {"kind": "imgadd" if what == "Images.add" else "rpmadd", "pre": [], "arch": arch, "srpm": False}, acc, what)
        acc.sample({"add": ["Server", "nosrc", "<image>"], "expected": "ValueError, manifest unchanged"}, limit=1)
    elif k in ("img1", "img2"):
        lays = variant_layouts(unit[-1])
        ver = unit[1]
        if k == "img1":
            for lay in lays:
                _check_images_doc([["Server", lay]], ver, acc)
        else:
            for lay in lays:
                _check_images_doc([["Client", lays[unit[2]]], ["Server", lay]], ver, acc)
            if unit[2] == 7:
                acc.sample({"images_document": images_doc([["Server", lays[7]]], ver)["payload"]["images"].keys().__len__(),
                            "layout": [["Client", lays[unit[2]]], ["Server", lays[5]]], "version": ver}, limit=1)
    elif k == "rpm1":
        for lay in rpms_variant_layouts():
            _check_rpms_doc([["Server", lay]], acc)
    else:
        rl = rpms_variant_layouts()
        for lay in rl:
            _check_rpms_doc([["Client", rl[unit[1]]], ["Server", lay]], acc)
        if unit[1] == 11:
            acc.sample({"rpms_0.3_layout": [["Client", rl[11]], ["Server", rl[40]]]}, limit=1)


def _judge_add(o, arch, case, acc, what):
    want_ok = arch in BINARY_OK
    if want_ok:
        if o["result"] != "ok":
            acc.violation("add-binary-refused", case, o, "%s under binary arch %r refused: %s" % (what, arch, o["result"]))
        else:
            acc.outcome("add:accepted")
    else:
        if o["result"] != "ValueError" or not o["unchanged"]:
            acc.violation("add-source-or-unknown", case, o, "%s under %r: result %s, manifest unchanged: %s (expected ValueError, unchanged)"
                          % (what, arch, o["result"], o["unchanged"]))
        else:
            acc.outcome("add:refused")
        acc.nontriv((what, repr(arch), json.dumps(case.get("pre"))))
    if any(a in SRC_KEYS for a in o["arch_keys"]):
        acc.violation("add-srckey", case, o, "%s left a source architecture key: %s" % (what, o["arch_keys"]))


def replay(case):
    k = case["kind"]
    if k == "imgadd":
        return eval_images_add(case["pre"], case["arch"])
    if k == "rpmadd":
        return eval_rpms_add(case["pre"], case["arch"], case["srpm"])
    if k == "imgdoc":
        return eval_images_doc(images_doc(case["layouts"], case["version"]), case.get("mode", "fresh"))
    return eval_rpms_doc(rpms_doc(case["layouts"]), case.get("mode", "fresh"))


KNOWN = {}


def describe(tier):
    return {
        "rule": "(i) Images.add / Rpms.add with arch in %s on 3 small pre-states; (ii) every images document of version 1.0, 1.1 "
                "(and 1.2: must be rejected when it has a src arch) with 1..2 variants, each variant any layout of x86_64/i386 "
                "{absent, empty, 1 image} x src {absent, 1, 2 images} (26 layouts, 26 + 26^2 documents per version); (iii) every "
                "rpms 0.3 document with 1..2 variants, binary arches within {x86_64, i386} each listing any subset of source "
                "packages {p, q} (one binary + one debug package each), src table absent or any subset (120 + 120^2 documents). "
                "Every document is loaded three ways: by a new object, by an object that has already loaded a current manifest, and as the second of two consumers of the same parsed document.  Oracle: re-filing model (source image under each binary arch of its variant; source RPM under each binary arch "
                "listing packages built from it, category source), no src/nosrc key in mapping or dump.  Non-trivial: a refused "
                "add, or a document that has a src table." % (ARCH_CLASSES,),
        "bound": "<= 2 variants, 2 binary arches, 2 source images / 2 source packages; complete enumeration in both tiers",
        "exhaustive": True,
        "model_binding": "every enumerated document/add is executed on the real library and compared with the re-filing model",
        "assumptions": ["a variant with only a src entry is outside the claim (counted, not judged)",
                        "all images of a document share checksums so that 1.1 identity uniqueness (C09) does not interfere"],
    }
