"""C17 - the legacy [general] section mirrors the authoritative sections.

The C04 treeinfo universe extended with every main-variant choice and float timestamps; the written
text is read with an independent INI reader and [general] is compared with [release]/[tree]/[variant-*]
and with the spec; the compatibility section alone is fed to the library's pre-productmd reader.
"""
from mc.build import ti as B
from mc.core import explorer
from mc.core.util import diff, exc_name
from mc.models import ini

ID = "C17"
LEVEL = "model_checking"
REQUIRED_OUTCOMES = ["general:ok", "edit-after-write:ok", "main:explicit", "main:default-of-several", "src-fallback", "float-timestamp",
                     "no-packages-path", "legacy-reader:agrees", "dashed-main-variant"]
HACK_NAMES = ("Red Hat Enterprise Linux", "Subscription Asset Manager", "Red Hat Storage", "JBEAP", "Fedora", "CentOS", "EulerOS")


class Universe(object):
    def __init__(self, seed=0):
        self.seed = seed

    def seeds(self):
        return [(n, f()) for n, f in B.SEEDS]

    def edits(self, spec):
        return B.edits(spec, self.seed, with_float=True, with_main=False)

    apply = staticmethod(B.apply_spec)
    canon = staticmethod(B.canon)


def spec_of(case):
    spec = dict(B.SEEDS)[case["seed"]]()
    for e in case["edits"]:
        spec = B.apply_spec(spec, e)
    spec["main_variant"] = case.get("main")
    return spec


def expected_general(spec):
    """[general] as the property states it, from the spec alone."""
    rel, tree = spec["release"], spec["tree"]
    tops = sorted(v["uid"] for v in spec["variants"])
    main = spec["main_variant"] if spec["main_variant"] is not None else tops[0]
    g = {"family": rel["name"], "version": rel["version"], "name": "%s %s" % (rel["name"], rel["version"]),
         "arch": tree["arch"], "platforms": ",".join(sorted(set(tree["platforms"]) | {tree["arch"]})),
         "timestamp": str(int(tree["build_timestamp"])), "variant": main}
    v = B.find(spec, main)
    for key, kind, src_kind in (("packagedir", "packages", "source_packages"), ("repository", "repository", "source_repository")):
        val = v["paths"].get(kind)
        if val is None and tree["arch"] == "src":
            val = v["paths"].get(src_kind)
        if val is not None:
            g[key] = val
    return g, main


def _norm(s):
    return " ".join(s.split()) if False else s.strip()


def eval_case(case):
    import productmd.treeinfo as pt
    spec = spec_of(case)
    try:
        owner = None
        if case.get("moved"):
            other = B.seed_src() if spec["tree"]["arch"] != "src" else B.seed_flat()
            owner = B.build(other)               # the variant objects are made for a tree of the other kind, then added here
        if case.get("live") and case["edits"]:
            # the parent state is built and WRITTEN (with every main-variant choice), then the last edit is made on the
            # same live object: [general] of the next file must follow the edit
            parent = spec_of(dict(case, edits=case["edits"][:-1]))
            obj = B.build(parent)
            for m in [None] + sorted(v["uid"] for v in parent["variants"]):
                B.dumps(obj, main_variant=m)
            B.apply_obj(obj, case["edits"][-1])
        else:
            obj = B.build(spec, _owner=owner)
        text = B.dumps(obj, main_variant=spec["main_variant"])
    except (ValueError, TypeError) as exc:
        return {"status": "refused", "problems": ["%s" % exc_name(exc)]}
    problems = []
    if spec["main_variant"] is not None:
        # a later dump of the same object that requests no main variant must fall back to the default again
        again = ini.as_dict(B.dumps(obj)).get("general", {})
        first = sorted(v["uid"] for v in spec["variants"])[0]
        if again.get("variant") != first:
            problems.append("after dump(main_variant=%r), a dump without main variant writes [general] variant = %r, expected %r"
                            % (spec["main_variant"], again.get("variant"), first))
    doc = ini.as_dict(text)
    g = doc.get("general")
    if g is None:
        return {"status": "bad", "problems": ["no [general] section"]}
    want, main = expected_general(spec)
    got = {k: v for k, v in g.items() if k in ("family", "version", "name", "arch", "platforms", "timestamp", "variant",
                                                "packagedir", "repository")}
    d = diff(got, {k: _norm(v) for k, v in want.items()})
    if d:
        problems.append("[general] differs from what the property states: " + "; ".join(d))
    # against the authoritative sections of the same file
    rel, tree = doc.get("release", {}), doc.get("tree", {})
    pairs = [("family", rel.get("name")), ("version", rel.get("version")),
             ("name", "%s %s" % (rel.get("name"), rel.get("version"))), ("arch", tree.get("arch")),
             ("platforms", tree.get("platforms"))]
    for key, auth in pairs:
        if g.get(key) != (auth.strip() if isinstance(auth, str) else auth):
            problems.append("[general] %s = %r but the authoritative section says %r" % (key, g.get(key), auth))
    try:
        if g.get("timestamp") != str(int(float(tree.get("build_timestamp")))):
            problems.append("[general] timestamp %r is not the integer part of [tree] build_timestamp %r" % (g.get("timestamp"), tree.get("build_timestamp")))
    except (TypeError, ValueError):
        problems.append("[tree] build_timestamp unreadable: %r" % tree.get("build_timestamp"))
    if tree.get("arch") not in (tree.get("platforms") or "").split(","):
        problems.append("[tree] platforms do not contain the tree arch")
    sec = doc.get("variant-%s" % g.get("variant"), doc.get("addon-%s" % g.get("variant")))
    if sec is None:
        problems.append("[general] variant %r has no section" % g.get("variant"))
    else:
        for key, kind, src_kind in (("packagedir", "packages", "source_packages"), ("repository", "repository", "source_repository")):
            auth = sec.get(kind)
            if auth is None and tree.get("arch") == "src":
                auth = sec.get(src_kind)
            if g.get(key) != auth:
                problems.append("[general] %s = %r but [variant-%s] says %r" % (key, g.get(key), g.get("variant"), auth))
    # the compatibility section alone, read by the library's pre-productmd reader
    legacy = None
    v = B.find(spec, main)
    plain = all((v["paths"].get(k) or "").strip("/.") and not (v["paths"].get(k) or "").endswith("/")
                for k in (("source_packages", "source_repository") if spec["tree"]["arch"] == "src" else ("packages", "repository")))
    if plain and "-" not in main and not spec["release"]["name"].startswith(HACK_NAMES) and spec["release"]["version"][0].isdigit() \
            and int(spec["tree"]["build_timestamp"]) != 0:        # (the stand-in reader treats timestamp 0 as blank)
        lines = ["[general]"] + ["%s = %s" % (k, val) for k, val in sorted(g.items())]
        old = pt.TreeInfo()
        try:
            old.loads("\n".join(lines) + "\n")
            mv = old.variants[g["variant"]]
            src = spec["tree"]["arch"] == "src"
            legacy = {"name": old.release.name, "version": old.release.version, "arch": old.tree.arch,
                      "timestamp": old.tree.build_timestamp,
                      "packages": mv.paths.source_packages if src else mv.paths.packages,
                      "repository": mv.paths.source_repository if src else mv.paths.repository}
            wantl = {"name": _norm(spec["release"]["name"]), "version": spec["release"]["version"], "arch": spec["tree"]["arch"],
                     "timestamp": int(spec["tree"]["build_timestamp"]),
                     "packages": want.get("packagedir"), "repository": want.get("repository")}
            dl = diff(legacy, wantl)
            if dl:
                problems.append("a pre-productmd reader given only [general] sees a different tree: " + "; ".join(dl))
        except Exception as exc:                                         # noqa
            problems.append("a pre-productmd reader cannot read the compatibility section: %s" % exc_name(exc))
            legacy = "failed"
    return {"status": "bad" if problems else "ok", "problems": problems, "legacy_checked": legacy is not None}


def bound(tier):
    return 1 if tier == "quick" else 2


def units(tier, seed):
    return [(u, tier, seed) for u in explorer.spec_units(Universe(seed), bound(tier))]


def run_unit(unit, acc):
    u, tier, seed = unit

    def visit(spec, trace, parent, last):
        tops = sorted(v["uid"] for v in spec["variants"])
        for main_choice, moved, live in [(m, False, False) for m in [None] + tops] + [(None, True, False)] + \
                ([(None, False, True), (tops[-1], False, True)] if last is not None else []):   # main-variant choice crossed with every state
            case = {"seed": trace[0], "edits": trace[1:], "main": main_choice, "moved": moved, "live": live}
            o = eval_case(case)
            acc.ev()
            acc.trace()
            if o["status"] == "refused":
                acc.outcome("refused")
                continue
            if o["status"] == "bad":
                acc.violation("general:" + (last[0] if last else "seed") + (":main" if main_choice else ""), case, o,
                              "%s main_variant=%r: %s" % (trace, main_choice, "; ".join(o["problems"])[:700]))
                acc.outcome("general:bad")
            else:
                acc.outcome("general:ok")
                if live:
                    acc.outcome("edit-after-write:ok")
            if o.get("legacy_checked") and o["status"] == "ok":
                acc.outcome("legacy-reader:agrees")
            main = main_choice if main_choice is not None else tops[0]
            if main_choice is not None:
                acc.outcome("main:explicit")
            elif len(tops) > 1:
                acc.outcome("main:default-of-several")
            if "-" in main:
                acc.outcome("dashed-main-variant")
            v = B.find(spec, main)
            if spec["tree"]["arch"] == "src" and v["paths"].get("packages") is None and v["paths"].get("source_packages") is not None:
                acc.outcome("src-fallback")
            if isinstance(spec["tree"]["build_timestamp"], float):
                acc.outcome("float-timestamp")
            if v["paths"].get("packages") is None:
                acc.outcome("no-packages-path")
            if len(tops) > 1 or main_choice is not None or isinstance(spec["tree"]["build_timestamp"], float):
                acc.nontriv((B.canon(spec), main_choice))
        if last is not None and last[0] in ("addvar", "timestamp"):
            acc.sample({"seed": trace[0], "edits": trace[1:], "main": tops[-1]}, limit=2)

    explorer.explore_unit(Universe(seed), u, bound(tier), acc, visit)


def replay(case):
    return eval_case(case)


KNOWN = {}


def describe(tier):
    return {
        "rule": "the C04 treeinfo universe (5 seeds, same edit operations) extended with float build timestamps and crossed with every main-variant choice (None and each "
                "top-level UID; after an explicit choice a second dump without one must use the default again), negative and fractional "
                "timestamps, and once with variant objects that were made for a tree of the other kind (binary/src).  Every state is written with dump(main_variant=...), the text is parsed by an "
                "independent INI reader (mc/models/ini.py) and [general] is compared (a) with the value the property states, "
                "computed from the spec, (b) with [release]/[tree]/[variant-*] of the same file; (c) for plain names/paths the "
                "[general] section alone is loaded by the library's pre-productmd reader and must give the same name, version, "
                "arch, timestamp and main-variant paths.  Non-trivial: several top-level variants, an explicit main variant or a "
                "float timestamp.",
        "bound": "deviation bound k = %d edits from a seed" % bound(tier),
        "exhaustive": True,
        "model_binding": "expected [general] is computed from the spec; every state is written by the real library",
        "assumptions": ["legacy-reader cross-check only on names without per-product hacks, numeric versions and non-empty paths "
                        "without trailing slash and main variants without a dash (the reader rewrites the others by design)",
                        "the [general] platforms key is not read by the pre-productmd reader and is only compared textually"],
    }
