"""C20 - a compose directory is resolved to the same metadata in every supported layout.

Environment enumeration: layouts present x which metadata files exist under current/legacy names x trailing
slash x broken content of one file x unrelated sibling directories x EVERY permutation of os.listdir's answer;
on each configuration accessor sequences (all 340 sequences of length <= 4 on a reduced set) with file opens
counted through a shadowed open().  Oracle: a decision-list model of the documented resolution.
"""
import itertools
import json
import os
import re
import shutil
import tempfile

from mc.build import ci as CI
from mc.build import im as IM
from mc.build import misc as MISC
from mc.core.util import call, exc_name

ID = "C20"
LEVEL = "model_checking"
REQUIRED_OUTCOMES = ["path-reused-for-another-tree", "resolved:direct", "resolved:compose", "resolved:legacy-subdir", "compose-preferred-over-direct",
                     "accessor:equals-direct-load", "accessor:legacy-name", "accessor:cached", "missing:RuntimeError-names-location",
                     "undecodable:RuntimeError-names-file", "listdir-permutation", "http:resolved-like-a-path",
                     "http:missing:RuntimeError-names-location"]

LOCS = ["direct", "compose", "sub"]                     # <root>/metadata, <root>/compose/metadata, <root>/1.0/metadata
LOCDIR = {"direct": "", "compose": "compose", "sub": "1.0"}
ACCESSORS = ["info", "images", "rpms", "modules"]
NAMES = {"info": ["composeinfo.json"], "images": ["images.json", "image-manifest.json"],
         "rpms": ["rpms.json", "rpm-manifest.json"], "modules": ["modules.json"]}
TAG = "TAGTAGTAG"
_TEXTS = {}


def texts():
    if not _TEXTS:
        spec = CI.seed_flat()
        spec["compose"]["id"] = "F-23-20160102.n.0-" + TAG
        _TEXTS["info"] = CI.build(spec).dumps()
        s = IM.seed_one()
        s["compose"]["id"] = "F-23-20160102.n.0-" + TAG
        _TEXTS["images"] = IM.build(s).dumps()
        for name, fn in (("rpms", MISC.rpms), ("modules", MISC.modules)):
            o = fn()
            o.compose.id = "F-23-20160102.n.0-" + TAG
            _TEXTS[name] = o.dumps()
    return _TEXTS


def file_patterns():
    """per location: which file names exist: info in {0,1} x images in {none, current, legacy, both} x rpms likewise x modules {0,1}"""
    out = []
    for i, im, rp, mo in itertools.product((0, 1), range(4), range(4), (0, 1)):
        files = []
        if i:
            files.append("composeinfo.json")
        for acc, k in (("images", im), ("rpms", rp)):
            if k in (1, 3):
                files.append(NAMES[acc][0])
            if k in (2, 3):
                files.append(NAMES[acc][1])
        if mo:
            files.append("modules.json")
        out.append(files)
    return out


REDUCED_PATTERNS = [
    ["composeinfo.json", "images.json", "rpms.json", "modules.json"],
    ["composeinfo.json"],
    ["images.json", "rpm-manifest.json"],
    ["composeinfo.json", "image-manifest.json", "rpm-manifest.json"],
    [],
]


def make_tree(root, config):
    """config = {"locs": {loc: [file names]}, "broken": None | [loc, name, how], "siblings": [names]}"""
    t = texts()
    for loc, files in config["locs"].items():
        d = os.path.join(root, LOCDIR[loc], "metadata")
        os.makedirs(d)
        for name in files:
            acc = [a for a in ACCESSORS if name in NAMES[a]][0]
            text = t[acc].replace(TAG, "%s-%s" % (loc, name.replace(".", "_")))
            if config.get("empty_label"):
                text = text.replace('"compose": {', '"compose": {"label": "",', 1)       # present but empty = no label
            if config.get("broken") and config["broken"][:2] == [loc, name]:
                how = config["broken"][2]
                text = {"garbage": "this is {not json", "empty": "", "truncated": text[:len(text) // 2],
                        "foreign-type": text.replace('"productmd.%s"' % {"info": "composeinfo"}.get(acc, acc), '"productmd.discinfo"'),
                        "bad-version": text.replace('"version": "1.2"', '"version": "1.x"'),
                        # junk that does not even begin with a digit (the version comparison itself may trip over it)
                        "bad-version-word": text.replace('"version": "1.2"', '"version": "v1.2"'),
                        "bad-version-unknown": text.replace('"version": "1.2"', '"version": "unknown"'),
                        "other-kind-1.1": t["rpms" if acc != "rpms" else "images"].replace('"version": "1.2"', '"version": "1.1"'),
                        "bad-date": re.sub(r'"date": "[0-9]{8}"', '"date": "2016"', text),
                        # intact JSON structure, but a byte inside a string that is not UTF-8 (written below)
                        "invalid-utf8": text.replace('"id": "', '"id": "\udcff', 1)}[how]
                assert text != t[acc].replace(TAG, "%s-%s" % (loc, name.replace(".", "_"))), "the %s damage did not change the file" % how
            with open(os.path.join(d, name), "w", encoding="utf-8", errors="surrogateescape") as f:
                f.write(text)
    for s in config.get("siblings", []):
        os.makedirs(os.path.join(root, s))


# ---- composes opened by URL: the web server is the environment ("HTTP(s) URL is also accepted") -------------------------------
# Harness-side seam: urlopen (both urllib.request's and six.moves') is replaced by a fake that serves a virtual tree with real
# http.client.HTTPResponse objects (application/json, no charset - what web servers send), answers 404 for anything else, or
# does not answer at all.  Nothing touches a socket.

HTTP_ROOT = "http://compose.example.com/composes/F-23"
HTTP_LAYOUTS = {
    "direct": {"direct": REDUCED_PATTERNS[0]},
    "compose": {"compose": REDUCED_PATTERNS[0]},
    "both": {"direct": REDUCED_PATTERNS[0], "compose": REDUCED_PATTERNS[0]},
    "compose-legacy-names": {"compose": REDUCED_PATTERNS[3]},
    "direct-partial": {"direct": REDUCED_PATTERNS[2]},
    "nothing": {},
}
HTTP_SERVERS = ["answers", "unreachable"]


def http_texts():
    """the documents of texts(), with raw (unescaped) non-ASCII text in them, as another producer would write them"""
    out = {}
    for acc, text in texts().items():
        doc = json.loads(text)
        if acc == "info":
            doc["payload"]["release"]["name"] = "Fédora ☃ 日本"
        out[acc] = json.dumps(doc, ensure_ascii=False, indent=4, sort_keys=True)
    return out


class _FakeSocket(object):
    def __init__(self, raw):
        self.raw = raw

    def makefile(self, *a, **k):
        import io
        return io.BytesIO(self.raw)


def run_http(layout, server, slash, sequence):
    import http.client
    import urllib.error
    import urllib.request
    import six
    import productmd.compose as pc
    tree = {}
    t = http_texts()
    for loc, files in HTTP_LAYOUTS[layout].items():
        for name in files:
            acc = [a for a in ACCESSORS if name in NAMES[a]][0]
            url = "/".join(x for x in (HTTP_ROOT, LOCDIR[loc], "metadata", name) if x)
            tree[url] = t[acc].replace(TAG, "%s-%s" % (loc, name.replace(".", "_")))
    fetched = []

    def fake_urlopen(url, *a, **k):
        url = url if isinstance(url, str) else url.full_url
        fetched.append(url)
        if server == "unreachable":
            raise urllib.error.URLError(ConnectionRefusedError(111, "Connection refused"))
        key = url.replace("//metadata", "/metadata").replace("F-23//", "F-23/")
        if key not in tree:
            raise urllib.error.HTTPError(url, 404, "Not Found", {}, None)
        body = tree[key].encode("utf-8")
        raw = b"HTTP/1.1 200 OK\r\nContent-Type: application/json\r\nContent-Length: %d\r\n\r\n" % len(body) + body
        r = http.client.HTTPResponse(_FakeSocket(raw))
        r.begin()
        return r
    saved = (urllib.request.urlopen, six.moves.urllib.request.urlopen)
    urllib.request.urlopen = fake_urlopen
    six.moves.urllib.request.urlopen = fake_urlopen
    try:
        out = {"reads": []}
        r = call(pc.Compose, HTTP_ROOT + ("/" if slash else ""))
        out["open"] = "ok" if r[0] == "ok" else r[1]
        if r[0] != "ok":
            return out
        comp = r[1]
        first = {}
        for acc in sequence:
            before = len(fetched)
            msg = ""
            try:
                obj = getattr(comp, acc)
                rd = {"accessor": acc, "result": "ok", "text": obj.dumps(), "same_object_as_first": acc in first and first[acc] is obj,
                      "fetches": len(fetched) - before}
                first.setdefault(acc, obj)
            except Exception as exc:                                  # noqa
                rd = {"accessor": acc, "result": exc_name(exc), "message": str(exc)}
            out["reads"].append(rd)
        return out
    finally:
        urllib.request.urlopen, six.moves.urllib.request.urlopen = saved


def judge_http(layout, server, slash, sequence, o):
    import productmd.composeinfo, productmd.images, productmd.rpms, productmd.modules      # noqa
    cls = {"info": productmd.composeinfo.ComposeInfo, "images": productmd.images.Images, "rpms": productmd.rpms.Rpms,
           "modules": productmd.modules.Modules}
    if o["open"] != "ok":
        return ["opening the compose by URL raised %s" % o["open"]]
    locs = HTTP_LAYOUTS[layout] if server == "answers" else {}
    loc = "compose" if "composeinfo.json" in locs.get("compose", []) else "direct"
    files = locs.get(loc, [])
    problems = []
    seen = set()
    for rd in o["reads"]:
        acc = rd["accessor"]
        present = [n for n in NAMES[acc] if n in files]
        if not present:
            if rd["result"] != "RuntimeError":
                problems.append("%s: nothing is served for it, the accessor gave %s" % (acc, rd["result"]))
            elif HTTP_ROOT not in rd["message"]:
                problems.append("%s: RuntimeError does not name the location: %r" % (acc, rd["message"]))
            continue
        if rd["result"] != "ok":
            problems.append("%s: %s is served but the accessor raised %s (%s)" % (acc, present[0], rd["result"], rd.get("message", "")[:80]))
            continue
        direct = cls[acc]()
        direct.loads(http_texts()[acc].replace(TAG, "%s-%s" % (loc, present[0].replace(".", "_"))))
        if rd["text"] != direct.dumps():
            problems.append("%s: differs from loading the served file %s/%s directly" % (acc, loc, present[0]))
        if acc in seen and not (rd["same_object_as_first"] and rd["fetches"] == 0):
            problems.append("%s: read again: %s, %d further request(s)" % (acc, "same object" if rd["same_object_as_first"] else "another object", rd["fetches"]))
        seen.add(acc)
    return problems


def eval_http(layout, server, slash, sequence):
    o = run_http(layout, server, slash, sequence)
    problems = judge_http(layout, server, slash, sequence, o)
    return {"problems": problems, "observed": {"open": o["open"], "reads": [{k: v for k, v in rd.items() if k != "text"} for rd in o["reads"]]}}


def allowed_locations(config):
    locs = config["locs"]
    if "compose" in locs and "composeinfo.json" in locs["compose"]:
        return ["compose"]
    cands = [l for l in ("compose", "sub") if l in locs]
    if "direct" in locs or any(not locs[l] for l in cands):
        cands.append("direct")          # (an EMPTY metadata directory is a degenerate layout: falling back to the path itself is fine)
    return cands or ["direct"]


class OpenCounter(object):
    count = 0


def run_config(config, sequence, listdir_perm=None, slash=False):
    """Open the compose and read the accessors in `sequence`; report everything observable."""
    import productmd.common
    import productmd.compose as pc
    top = tempfile.mkdtemp(prefix="c20-")
    root = os.path.join(top, config.get("rootname") or "compose-root")
    os.makedirs(root)
    real_listdir = os.listdir
    real_open = open
    try:
        if config.get("previous"):
            # the SAME path held another compose before: open it, read everything, then replace the tree
            make_tree(root, config["previous"])
            prev = call(__import__("productmd.compose").compose.Compose, root)
            if prev[0] == "ok":
                for acc_name in ACCESSORS:
                    call(lambda: getattr(prev[1], acc_name))
            shutil.rmtree(root)
            os.makedirs(root)
        make_tree(root, config)

        def listdir(p="."):
            res = sorted(real_listdir(p))
            if listdir_perm is not None and os.path.normpath(p) == os.path.normpath(root):
                res = [res[i] for i in listdir_perm if i < len(res)]
            return res

        def counting_open(*a, **kw):
            OpenCounter.count += 1
            return real_open(*a, **kw)
        os.listdir = listdir
        productmd.common.open = counting_open
        try:
            r = call(pc.Compose, root + ("/" if slash else ""))
            if r[0] != "ok":
                return {"open": r[1]}
            comp = r[1]
            resolved = os.path.relpath(os.path.normpath(comp.compose_path), root)
            out = {"open": "ok", "resolved": {".": "direct", "compose": "compose", "1.0": "sub"}.get(resolved, resolved), "reads": []}
            first = {}
            for acc in sequence:
                OpenCounter.count = 0
                r = call(lambda: getattr(comp, acc))
                opens = OpenCounter.count
                if r[0] == "ok":
                    obj = r[1]
                    d = call(obj.dumps) if obj is not None and hasattr(obj, "dumps") else ["exc", "not-a-metadata-object:%r" % (obj,)]
                    cid = None
                    if d[0] == "ok":
                        cid = json.loads(d[1])["payload"]["compose"]["id"]
                    same = (acc in first and first[acc] is obj)
                    if acc not in first:
                        first[acc] = obj
                    out["reads"].append({"accessor": acc, "result": "ok", "compose_id": cid, "type": type(obj).__name__,
                                         "same_object_as_first": same, "opens": opens,
                                         "text_equals_direct": None})
                    # compare with a direct load of the file the id names
                    if cid and "-" in cid:
                        tag = cid.split("20160102.n.0-")[-1]
                        loc, fname = tag.split("-", 1)
                        fpath = os.path.join(root, LOCDIR.get(loc, "?"), "metadata", fname.replace("_json", ".json"))
                        direct = type(obj)()
                        rr = call(direct.load, fpath)
                        out["reads"][-1]["source"] = [loc, fname.replace("_json", ".json")]
                        out["reads"][-1]["text_equals_direct"] = (rr[0] == "ok" and direct.dumps() == d[1])
                else:
                    msg = ""
                    try:
                        getattr(comp, acc)
                    except Exception as exc:                          # noqa
                        msg = str(exc)
                    out["reads"].append({"accessor": acc, "result": r[1], "message": msg.replace(root, "<root>")})
            return out
        finally:
            os.listdir = real_listdir
            del productmd.common.open
    finally:
        shutil.rmtree(top, ignore_errors=True)


def judge(config, sequence, o):
    """-> list of problems (empty = conforms to the documented resolution)"""
    if o["open"] != "ok":
        return ["opening the compose raised %s" % o["open"]]
    allowed = allowed_locations(config)
    if o["resolved"] not in allowed:
        return ["resolved to %r, documented resolution allows %s" % (o["resolved"], allowed)]
    loc = o["resolved"]
    files = config["locs"].get(loc, [])
    locpath = "<root>" if loc == "direct" else "<root>/" + LOCDIR[loc]
    problems = []
    seen_ok = set()
    for rd in o["reads"]:
        acc = rd["accessor"]
        present = [n for n in NAMES[acc] if n in files]
        broken = config.get("broken")
        if not present:
            if rd["result"] != "RuntimeError":
                problems.append("%s: no file under %s but the accessor gave %s" % (acc, loc, rd["result"]))
            elif locpath not in rd["message"]:
                problems.append("%s: RuntimeError does not name the location %s: %r" % (acc, locpath, rd["message"]))
            continue
        is_broken = [n for n in present if broken and broken[:2] == [loc, n]]
        if rd["result"] != "ok":
            # acceptable only when the file that would be read is the undecodable one
            if is_broken and rd["result"] == "RuntimeError":
                if not any(n in rd["message"] for n in is_broken) or locpath not in rd["message"]:
                    problems.append("%s: RuntimeError does not name the undecodable file: %r" % (acc, rd["message"]))
                continue
            problems.append("%s: file(s) %s present under %s but the accessor raised %s (%s)" % (acc, present, loc, rd["result"], rd.get("message", "")[:80]))
            continue
        if rd.get("source") is None or rd["source"][0] != loc or rd["source"][1] not in present:
            problems.append("%s: returned metadata of %s, expected one of %s under %s" % (acc, rd.get("source"), present, loc))
            continue
        if is_broken and rd["source"][1] in is_broken:
            problems.append("%s: an undecodable file was loaded" % acc)
        if not rd["text_equals_direct"]:
            problems.append("%s: differs from loading %s directly" % (acc, rd["source"]))
        if acc in seen_ok:
            if not rd["same_object_as_first"]:
                problems.append("%s: second access returned a different object" % acc)
            if rd["opens"]:
                problems.append("%s: second access opened %d file(s)" % (acc, rd["opens"]))
        seen_ok.add(acc)
    return problems


def eval_case(case):
    o = run_config(case["config"], case["sequence"], case.get("perm"), case.get("slash", False))
    return {"observed": o, "problems": judge(case["config"], case["sequence"], o)}


# ---- exploration --------------------------------------------------------------------------------

BOTH_ORDERS = [ACCESSORS + ACCESSORS, ACCESSORS[::-1] + ACCESSORS[::-1]]


def all_sequences(n):
    out = []
    for k in range(1, n + 1):
        out += [list(t) for t in itertools.product(ACCESSORS, repeat=k)]
    return out


def units(tier, seed):
    us = []
    pats = file_patterns()
    for loc in LOCS:
        for i in range(0, len(pats), 16):
            us.append(("single", loc, pats[i:i + 16]))
    for combo in (("direct", "compose"), ("direct", "sub"), ("compose", "sub"), ("direct", "compose", "sub")):
        us.append(("multi", list(combo)))
    us.append(("label",))
    for loc in LOCS:
        us.append(("broken", loc))
    for loc in LOCS:
        us.append(("perm", loc))
    for k in range(4):
        us.append(("sequences", k, 4 if tier == "thorough" else 3))
    us.append(("retarget",))
    us.append(("http",))
    return us


def _check(case, acc, tag):
    o = eval_case(case)
    acc.ev()
    acc.trans(len(case["sequence"]))
    acc.trace()
    acc.state(json.dumps([case["config"], case.get("perm"), case.get("slash", False)], sort_keys=True))
    if o["problems"]:
        acc.violation(tag, case, o, "%s slash=%s perm=%s: %s" % (case["config"], case.get("slash"), case.get("perm"), "; ".join(o["problems"][:3])))
        return o
    obs = o["observed"]
    acc.outcome("resolved:" + {"direct": "direct", "compose": "compose", "sub": "legacy-subdir"}[obs["resolved"]])
    if obs["resolved"] == "compose" and "direct" in case["config"]["locs"]:
        acc.outcome("compose-preferred-over-direct")
    for rd in obs["reads"]:
        if rd["result"] == "ok":
            acc.outcome("accessor:equals-direct-load")
            if rd["source"][1] in ("image-manifest.json", "rpm-manifest.json"):
                acc.outcome("accessor:legacy-name")
            if rd["same_object_as_first"]:
                acc.outcome("accessor:cached")
        elif rd["result"] == "RuntimeError":
            broken = case["config"].get("broken")
            acc.outcome("undecodable:RuntimeError-names-file" if broken and broken[1] in NAMES[rd["accessor"]] and broken[1] in rd["message"]
                        else "missing:RuntimeError-names-location")
    if len(case["config"]["locs"]) > 1 or case.get("perm") or case["config"].get("broken"):
        acc.nontriv(json.dumps(case, sort_keys=True))
    return o


def _run_http(acc):
    for layout in sorted(HTTP_LAYOUTS):
        for server in HTTP_SERVERS:
            for slash in (False, True):
                for seq in (ACCESSORS + ACCESSORS, list(reversed(ACCESSORS))):
                    case = {"kind": "http", "layout": layout, "server": server, "slash": slash, "sequence": seq}
                    o = eval_http(layout, server, slash, seq)
                    acc.ev()
                    acc.trans(len(seq))
                    acc.nontriv(json.dumps(case, sort_keys=True))
                    if o["problems"]:
                        acc.violation("http", case, o, "compose opened by URL (%s, server %s, slash=%s): %s"
                                      % (layout, server, slash, "; ".join(o["problems"][:3])))
                    else:
                        acc.outcome("http:" + ("resolved-like-a-path" if server == "answers" and layout != "nothing" else "missing:RuntimeError-names-location"))


def run_unit(unit, acc):
    if unit[0] == "http":
        return _run_http(acc)
    k = unit[0]
    if k == "single":
        _, loc, pats = unit
        for files in pats:
            for slash in (False, True):
                for seq in BOTH_ORDERS:
                    _check({"config": {"locs": {loc: files}, "siblings": ["work", "logs"],
                                       "rootname": "Fedora-20-[updates]-*?" if slash else None}, "sequence": seq, "slash": slash},
                           acc, "single:" + loc)
        acc.sample({"layout": {loc: pats[-1]}, "sequence": BOTH_ORDERS[0], "trailing_slash": True}, limit=1)
    elif k == "multi":
        combo = unit[1]
        for pats in itertools.product(REDUCED_PATTERNS, repeat=len(combo)):
            config = {"locs": dict(zip(combo, [list(p) for p in pats])), "siblings": ["work"]}
            for slash in (False, True):
                for seq in BOTH_ORDERS:
                    _check({"config": config, "sequence": seq, "slash": slash}, acc, "multi")
        acc.sample({"layouts": dict(zip(combo, REDUCED_PATTERNS[:len(combo)]))}, limit=1)
    elif k == "broken":
        loc = unit[1]
        for files in (REDUCED_PATTERNS[0], REDUCED_PATTERNS[3], ["composeinfo.json", "images.json", "image-manifest.json", "rpms.json", "rpm-manifest.json"]):
            for name in files:
                for how in ("garbage", "empty", "truncated", "foreign-type", "bad-version", "bad-version-word", "bad-version-unknown", "bad-date", "other-kind-1.1", "invalid-utf8"):
                    config = {"locs": {loc: list(files)}, "broken": [loc, name, how], "siblings": []}
                    for seq in BOTH_ORDERS:
                        _check({"config": config, "sequence": seq}, acc, "broken")
        acc.sample({"layout": {loc: REDUCED_PATTERNS[0]}, "broken_file": ["images.json", "truncated"]}, limit=1)
    elif k == "perm":
        loc = unit[1]
        for files in (REDUCED_PATTERNS[0], REDUCED_PATTERNS[2]):
            for extra in ([], ["direct"]) if loc != "direct" else ([],):
                locs = {loc: list(files)}
                for e in extra:
                    locs[e] = ["composeinfo.json"]
                config = {"locs": locs, "siblings": ["aaa", "work", "zzz"]}
                n = 3 + len(locs) if "direct" in locs else 3 + len(locs)
                n = len(config["siblings"]) + sum(1 for l in locs)           # entries in the root directory
                for perm in itertools.permutations(range(n)):
                    _check({"config": config, "sequence": ACCESSORS, "perm": list(perm)}, acc, "perm")
                    acc.outcome("listdir-permutation")
    elif k == "label":
        for loc in LOCS:
            for files in (REDUCED_PATTERNS[0], REDUCED_PATTERNS[3]):
                for seq in BOTH_ORDERS:
                    _check({"config": {"locs": {loc: list(files)}, "siblings": [], "empty_label": True}, "sequence": seq}, acc, "empty-label")
    elif k == "retarget":
        trees = [{"locs": {"direct": REDUCED_PATTERNS[0]}}, {"locs": {"direct": REDUCED_PATTERNS[1]}}, {"locs": {"compose": REDUCED_PATTERNS[0]}},
                 {"locs": {"sub": REDUCED_PATTERNS[3]}}, {"locs": {"direct": REDUCED_PATTERNS[2]}}, {"locs": {"compose": REDUCED_PATTERNS[2]}},
                 {"locs": {"direct": []}}]
        for before in trees:
            for after in trees:
                if before is after:
                    continue
                config = dict(after, siblings=[], previous=dict(before, siblings=[]))
                for seq in BOTH_ORDERS:
                    _check({"config": config, "sequence": seq}, acc, "retarget")
                    acc.outcome("path-reused-for-another-tree")
        acc.sample({"first_tree": trees[1]["locs"], "then_same_path_holds": trees[0]["locs"]}, limit=1)
    else:
        _, part, n = unit
        seqs = all_sequences(n)
        configs = [
            {"locs": {"direct": REDUCED_PATTERNS[0]}, "siblings": []},
            {"locs": {"compose": REDUCED_PATTERNS[3]}, "siblings": ["work"]},
            {"locs": {"sub": REDUCED_PATTERNS[2]}, "siblings": []},
            {"locs": {"direct": REDUCED_PATTERNS[1], "compose": REDUCED_PATTERNS[0]}, "siblings": []},
        ]
        for seq in seqs:
            _check({"config": configs[part], "sequence": seq}, acc, "sequence")
        acc.sample({"layout": configs[part]["locs"], "accessor_sequence": seqs[-1]}, limit=1)


def replay(case):
    if case.get("kind") == "http":
        return eval_http(case["layout"], case["server"], case["slash"], case["sequence"])
    return eval_case(case)


KNOWN = {}


def describe(tier):
    return {
        "rule": "configurations: (a) each single layout (direct / compose/ / legacy sub-directory) x all 64 file-presence patterns "
                "(composeinfo; images and rpms under none / current / legacy / both names; modules) x trailing slash; (b) every "
                "combination of 2 and 3 coexisting layouts x 5 presence patterns per location x trailing slash; (c) one file at a time "
                "replaced by garbage / empty / truncated text; (d) every permutation of os.listdir's answer for roots with 3 unrelated "
                "sibling directories; (e) root directory names with glob metacharacters; (f) 42 ordered pairs of different trees at the SAME "
                "path within one process (the first one opened and read before the tree is replaced); on each configuration all four accessors twice in both orders, and on 4 configurations every "
                "accessor sequence of length <= %d.  Every file carries a distinct compose id so the source of a loaded object is "
                "identifiable.  Oracle (decision-list model): compose/ wins when it has composeinfo.json, otherwise any location holding a "
                "metadata directory; all accessors read from the resolved location; dumps() equals a direct load of that file; repeated "
                "access returns the same object and opens no file; missing -> RuntimeError naming the location; undecodable -> "
                "RuntimeError naming the file.  Non-trivial: several layouts, a listdir permutation or a broken file."
                % (4 if tier == "thorough" else 3),
        "bound": "<= 3 coexisting layouts, one broken file, <= 5 directory entries permuted, accessor sequences <= %d" % (4 if tier == "thorough" else 3),
        "exhaustive": True,
        "model_binding": "every configuration is built on disk and opened with the real productmd.compose.Compose; the model only "
                         "predicts the allowed locations and file names",
        "assumptions": ["undecodable = not JSON, or JSON whose header type / version / compose date the reader rejects with ValueError", "precedence is stated only for compose/ over the direct layout; for other coexisting layouts any location "
                        "holding metadata is allowed (DESIGN.md section 4)", "'undecodable' = not JSON",
                        "HTTP(S) locations are out of scope (no network)"],
    }
