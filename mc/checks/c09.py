"""C09 - image identity is unique within a manifest (history BFS with a lockstep reference model).

States of the reference model (header version, set of placements, in-scope flag) are enumerated breadth
first up to depth d-1; from every state every operation (48 adds over a colliding image pool, dumps,
reload) is executed on a fresh real Images object by replaying the history, the real object being
compared with the model after every step.
"""
import copy
import json

from mc.build import im as B
from mc.core.util import call

ID = "C09"
LEVEL = "model_checking"
REQUIRED_OUTCOMES = ["add:accepted", "add:refused", "doc-src:rejected", "doc-src:accepted-1.0", "add:accepted-pre-1.1-collision", "add:accepted-equal-checksums",
                     "reload:rejected", "reload:ok", "doc:accepted-1.0", "doc:rejected", "identify:agree"]

X = {"sha256": "a" * 64}
Y = {"sha256": "b" * 64}


def pool():
    def mk(n, chk, **kw):
        s = B.imgspec(n, subvariant="S", checksums=dict(chk), path="p/img-%02d.iso" % n)
        s.update(kw)
        return s
    return [
        mk(0, X),                                                      # A
        mk(1, X),                                                      # A' same identity, same checksums, other path
        mk(2, Y),                                                      # B  same identity, different checksums
        mk(3, Y, subvariant="KDE"),                                    # differs from A in exactly one identity attribute
        mk(4, Y, type="netinst"),
        mk(5, Y, format="qcow2"),
        mk(6, Y, arch="i386"),
        mk(7, Y, disc_number=2),
        mk(8, Y, unified=True),
        mk(9, X, unified=True, additional_variants=["Client"]),        # U
        mk(10, Y, unified=True, additional_variants=["Client", "Server"]),   # differs from U only in additional_variants
        mk(11, Y, unified=True, additional_variants=["Client"]),       # collides with U
        mk(12, X, unified=True, additional_variants=["Server", "Client"]),   # caller-ordered list: not the identity of #10
        mk(13, dict(X, md5="c" * 32)),                                 # identity of A, checksums a strict SUPERSET of A's
        mk(14, {"md5": "e" * 32}),                                     # identity of A, no checksum type in common with A
    ]


POOL = pool()
CELLS = [("Server", "x86_64"), ("Server", "i386"), ("Client", "x86_64"), ("Client", "i386")]
HEADERS = [None, "1.0", "1.1", "1.2", "2.0"]
OPS = ([["add", v, a, i] for i in range(len(POOL)) for v, a in CELLS] + [["dumps"], ["reload"]] +
       [["setver", "1.1"], ["setver", "1.0"]] +                        # header.version assigned by the caller
       [["loaddoc", v, a, i] for i in (0, 2, 11, 13) for v, a in CELLS[:2]])     # a one-image 1.2 document loaded INTO the live manifest
CURRENT = (1, 2)


def ident(s):
    return tuple(json.dumps(s[k]) for k in B.IDENTITY)


IDENT = [ident(s) for s in POOL]


def vt(h):
    return (0, 0) if h is None else tuple(int(x) for x in h.split("."))


# ---- reference model ---------------------------------------------------------------------------

def m_init(header):
    return (vt(header), frozenset(), True)


def m_collides(placed, i):
    return any(IDENT[j] == IDENT[i] and POOL[j]["checksums"] != POOL[i]["checksums"] for (_, _, j) in placed)


def m_has_collision(placed):
    idx = sorted({j for (_, _, j) in placed})
    return any(IDENT[a] == IDENT[b] and POOL[a]["checksums"] != POOL[b]["checksums"] for a in idx for b in idx if a < b)


def m_step(state, op):
    """-> (new state, expected outcome) ; outcome 'ok' | 'ValueError' | 'reject'."""
    version, placed, scope = state
    if op[0] == "add":
        _, v, a, i = op
        if version >= (1, 1) and m_collides(placed, i):
            return state, "ValueError"
        return (version, placed | {(v, a, i)}, scope and version >= (1, 1)), "ok"
    if op[0] == "setver":
        return (vt(op[1]), placed, scope), "ok"
    if op[0] == "loaddoc":
        _, v, a, i = op
        if m_collides(placed, i):
            return (CURRENT, placed, scope), "reject"        # (the header of the document has been read before the image is refused)
        return (CURRENT, placed | {(v, a, i)}, scope), "ok"
    if op[0] == "dumps":
        return (CURRENT, placed, scope), "ok"
    if op[0] == "reload":
        if m_has_collision(placed):
            return (CURRENT, placed, scope), "reject"       # the dump succeeds (header moves), the load must raise
        return (CURRENT, placed, scope), "ok"
    raise ValueError(op)


# ---- implementation side ------------------------------------------------------------------------

PATH2IDX = {s["path"]: i for i, s in enumerate(POOL)}


def observe(im):
    placed = set()
    cells = set()
    for v in im.images:
        for a in im.images[v]:
            cells.add((v, a))
            for img in im.images[v][a]:
                placed.add((v, a, PATH2IDX.get(img.path, -1)))
    return placed, cells


def run_history(header, hist, verify_from=0):
    """Replays hist on a fresh object in lockstep with the model; returns a list of problems (first divergence).
    Steps before `verify_from` are executed but not compared again (they were compared when that prefix was explored)."""
    import productmd.images as pi
    other = pi.Images()                           # an unrelated manifest filled first: nothing of it may influence `im`
    other.header.version = "1.2"
    call(other.add, "Other", "x86_64", B.mk_image(other, POOL[2]))
    im = pi.Images()
    c = B.compose_section()
    im.compose.id, im.compose.type, im.compose.date, im.compose.respin = c["id"], c["type"], c["date"], c["respin"]
    if header:
        im.header.version = header
    objs = [B.mk_image(im, s) for s in POOL]
    state = m_init(header)
    notes = []
    for n, op in enumerate(hist):
        check = n >= verify_from
        before = observe(im) if check else None
        state2, want = m_step(state, op)
        if op[0] == "add":
            r = call(im.add, op[1], op[2], objs[op[3]])
            got = "ok" if r[0] == "ok" else r[1]
        elif op[0] == "setver":
            im.header.version = op[1]
            got = "ok"
        elif op[0] == "loaddoc":
            doc = doc_of([(op[1], op[2], op[3])])
            r = call(im.loads, json.dumps(doc))
            got = "ok" if r[0] == "ok" else "reject"
        elif op[0] == "dumps":
            r = call(im.dumps)
            got = "ok" if r[0] == "ok" else r[1]
        else:
            r = call(im.dumps)
            if r[0] != "ok":
                got = r[1]
            else:
                fresh = pi.Images()
                r2 = call(fresh.loads, r[1])
                if r2[0] == "ok":
                    got = "ok"
                    im = fresh
                    objs = [B.mk_image(im, s) for s in POOL]
                else:
                    got = "reject"
        if not check:
            state = state2
            notes.append(got)
            continue
        after = observe(im)
        if got != want:
            return state2, ["step %d %s: library %s, model %s" % (n, op, got, want)], notes
        if want != "ok" and op[0] in ("add", "loaddoc") and after != before:
            return state2, ["step %d %s: refused add changed the manifest: %s -> %s" % (n, op, sorted(before[0]), sorted(after[0]))], notes
        if want != "ok" and op[0] == "add":
            # the very same add again, right away: the refusal must not depend on the call having been seen before
            r = call(im.add, op[1], op[2], objs[op[3]])
            if r[0] == "ok" or r[1] != want or observe(im) != before:
                return state2, ["step %d %s: refused, but the same add repeated at once %s" % (
                    n, op, "is accepted" if r[0] == "ok" else "raises %s" % r[1] if r[1] != want else "changes the manifest")], notes
        if after[0] != set(state2[1]):
            return state2, ["step %d %s: manifest holds %s, model %s" % (n, op, sorted(after[0]), sorted(state2[1]))], notes
        if after[1] != {(v, a) for (v, a, _) in state2[1]}:
            return state2, ["step %d %s: cells %s do not match placements" % (n, op, sorted(after[1]))], notes
        if state2[2] and m_has_collision(state2[1]):
            return state2, ["step %d: in-scope manifest holds a colliding pair" % n], notes
        state = state2
        notes.append(got)
    return state, [], notes


def eval_hist(header, hist):
    _, problems, notes = run_history(header, hist)
    return {"problems": problems, "steps": notes}


def doc_of(placed):
    """A document holding the placements (as the library itself writes images), version to be re-headed."""
    cells = {}
    for v, a, i in sorted(placed):
        d = copy.deepcopy(POOL[i])
        if not d["unified"]:
            d.pop("unified")
            d.pop("additional_variants")
        cells.setdefault(v, {}).setdefault(a, []).append(d)
    return {"header": {"type": "productmd.images", "version": "1.2"},
            "payload": {"compose": {k: v for k, v in B.compose_section().items() if k not in ("label", "final")},
                        "images": cells}}


def eval_doc(placed, version, src=None):
    """src: index (into the sorted placements) of the image that the document files under the legacy 'src' arch of its variant
    (formats <= 1.1: the reader re-files it under every binary arch of that variant)"""
    import productmd.images as pi
    placed = sorted(tuple(p) for p in placed)
    doc = doc_of([p for n, p in enumerate(placed) if n != src])
    if src is not None:
        v, _, i = placed[src]
        d = copy.deepcopy(POOL[i])
        if not d["unified"]:
            d.pop("unified")
            d.pop("additional_variants")
        doc["payload"]["images"].setdefault(v, {}).setdefault("src", []).append(d)
    doc["header"]["version"] = version
    r = call(pi.Images().loads, json.dumps(doc))
    return {"load": "ok" if r[0] == "ok" else r[1]}


IDENT_EXTRA = [dict(POOL[0], subvariant=""), dict(POOL[0], disc_number=0), dict(POOL[0], subvariant="", disc_number=0, arch="src"),
               dict(POOL[8], subvariant=""),
               dict(POOL[0], additional_variants=["Client"])]       # not unified: an invalid object, must be refused, not written


def eval_doc_same_path(first, second, version):
    """two entries in different cells: equal identity, different checksums, and the very same path"""
    import productmd.images as pi
    doc = doc_of([("Server", "x86_64", first), ("Client", "x86_64", second)])
    doc["payload"]["images"]["Client"]["x86_64"][0]["path"] = POOL[first]["path"]
    doc["header"]["version"] = version
    r = call(pi.Images().loads, json.dumps(doc))
    return {"load": "ok" if r[0] == "ok" else r[1]}


IDENT_ATTRS = {"subvariant": "Other", "type": "boot", "format": "qcow2", "arch": "aarch64", "disc_number": 7, "unified": True,
               "additional_variants": ["Zeta"]}


def eval_identify(i, drop, then=None):
    """then = [attribute, value]: the object has been identified (and filed in a manifest) once BEFORE the attribute got this value"""
    import productmd.images as pi
    im = pi.Images()
    img = B.mk_image(im, (POOL + IDENT_EXTRA)[i])
    if then:
        call(pi.identify_image, img)
        call(pi.Images().add, "Server", "x86_64", img)
        if then[0] == "additional_variants":
            img.unified = True
        setattr(img, then[0], then[1])
    lst = []
    r = call(img.serialize, lst)
    if r[0] != "ok":
        return {"object": "refused", "dict": "refused"} if r[1] in ("ValueError", "TypeError") else {"object": r, "dict": None}
    d = dict(lst[0])
    if drop:
        d.pop("unified", None)
        d.pop("additional_variants", None)
    a = call(pi.identify_image, img)
    b = call(pi.identify_image, d)
    return {"object": [list(a[1]) if a[0] == "ok" else a], "dict": [list(b[1]) if b[0] == "ok" else b]}


# ---- exploration --------------------------------------------------------------------------------

def depth(tier):
    return 3 if tier == "quick" else 4


def source_states(header, d, ops=None):
    """Distinct model states reachable in < d steps, each with one (shortest) history."""
    start = m_init(header)
    seen = {start: []}
    level = [start]
    for _ in range(d - 1):
        nxt = []
        for s in level:
            for op in (ops or OPS):
                s2, _ = m_step(s, op)
                if s2 not in seen:
                    seen[s2] = seen[s] + [op]
                    nxt.append(s2)
        level = nxt
    return seen


def ops_for(tier):
    if tier == "thorough":
        return OPS
    quick_cells = CELLS[:3]                              # the quick tier uses 3 of the 4 cells
    return [op for op in OPS if op[0] not in ("add", "loaddoc") or (op[1], op[2]) in quick_cells]


def units(tier, seed):
    us = [("identify",)]
    d = depth(tier)
    for h in HEADERS:
        hists = list(source_states(h, d, ops_for(tier)).values())
        hists = hists[seed % len(hists):] + hists[:seed % len(hists)]
        chunk = 40 if tier == "quick" else 120
        for i in range(0, len(hists), chunk):
            us.append(("hist", h, hists[i:i + chunk], tier))
    return us


def run_unit(unit, acc):
    if unit[0] == "identify":
        for ver in ("1.1", "1.2", "2.0"):
            for first, second in ((0, 2), (9, 11)):
                o = eval_doc_same_path(first, second, ver)
                acc.ev()
                if o["load"] == "ok":
                    acc.violation("document-same-path", {"kind": "docpath", "first": first, "second": second, "version": ver}, o,
                                  "a %s document listing one path twice (cells Server/x86_64 and Client/x86_64) with equal identity and "
                                  "different checksums was loaded" % ver)
                else:
                    acc.outcome("doc:rejected")
        for i in range(len(POOL) + len(IDENT_EXTRA)):
            for drop in (False, True):
                if drop and (POOL + IDENT_EXTRA)[i]["unified"]:
                    continue
                o = eval_identify(i, drop)
                acc.ev()
                if o["object"] == "refused":
                    acc.outcome("identify:invalid-object-refused")
                    continue
                if o["object"] != o["dict"] or o["object"][0][0] == "exc":
                    acc.violation("identify", {"kind": "identify", "i": i, "drop": drop}, o,
                                  "identify_image(object) %s != identify_image(serialised dict) %s" % (o["object"], o["dict"]))
                else:
                    acc.outcome("identify:agree")
        for i in (0, 1):
            for attr, val in sorted(IDENT_ATTRS.items()):
                o = eval_identify(i, False, [attr, val])
                acc.ev()
                acc.nontriv(("identify-after-change", i, attr))
                if o["object"] == "refused":
                    acc.outcome("identify:invalid-object-refused")
                elif o["object"] != o["dict"] or o["object"][0][0] == "exc":
                    acc.violation("identify-after-change", {"kind": "identify", "i": i, "drop": False, "then": [attr, val]}, o,
                                  "after %s of an already identified and filed image was set to %r: identify_image(object) %s != "
                                  "identify_image(serialised dict) %s" % (attr, val, o["object"], o["dict"]))
                else:
                    acc.outcome("identify:agree")
        return
    _, header, hists, tier = unit
    for hist in hists:
        src, problems, _ = run_history(header, hist)
        acc.state((header, src))
        for op in ops_for(tier):
            full = hist + [op]
            state, problems, notes = run_history(header, full, verify_from=len(hist))
            acc.trans()
            acc.trace()
            acc.ev()
            acc.state((header, state))
            pre = m_step(src, op)
            if problems:
                acc.violation("history:" + op[0], {"kind": "hist", "header": header, "hist": full},
                              {"problems": problems, "steps": notes}, "header %s, history %s: %s" % (header, full, problems[0]))
                continue
            if op[0] == "add":
                if pre[1] == "ValueError":
                    acc.outcome("add:refused")
                else:
                    acc.outcome("add:accepted")
                    if m_collides(src[1], op[3]):
                        acc.outcome("add:accepted-pre-1.1-collision")
                    elif any(IDENT[j] == IDENT[op[3]] and j != op[3] for (_, _, j) in src[1]):
                        acc.outcome("add:accepted-equal-checksums")
            elif op[0] == "reload":
                acc.outcome("reload:rejected" if pre[1] == "reject" else "reload:ok")
            elif op[0] == "loaddoc":
                acc.outcome("loaddoc:rejected" if pre[1] == "reject" else "loaddoc:ok")
            if len(full) >= 2:
                acc.nontriv((header, state))
        # documents: the same placements written as a file and re-headed
        placed = sorted(src[1])
        if placed:
            coll = m_has_collision(src[1])
            for ver in ("1.0", "1.1", "1.2"):
                o = eval_doc(placed, ver)
                acc.ev()
                want_ok = (not coll) or ver == "1.0"
                if (o["load"] == "ok") != want_ok:
                    acc.violation("document", {"kind": "doc", "placed": placed, "version": ver}, o,
                                  "document version %s with placements %s (colliding pair: %s): load -> %s"
                                  % (ver, placed, coll, o["load"]))
                elif coll:
                    acc.outcome("doc:accepted-1.0" if ver == "1.0" else "doc:rejected")
            # the legacy layout: one of the images sits under the 'src' arch of its variant and is re-filed by the reader under
            # the variant's binary arches - the uniqueness rule holds for what the manifest ends up holding
            for j, (v, a, i) in enumerate(placed):
                binary = {a2 for n, (v2, a2, _) in enumerate(placed) if v2 == v and n != j}
                if not binary:
                    continue
                refiled = {p for n, p in enumerate(placed) if n != j} | {(v, a2, i) for a2 in binary}
                coll2 = m_has_collision(refiled)
                for ver in ("1.0", "1.1"):
                    o = eval_doc(placed, ver, j)
                    acc.ev()
                    if (o["load"] == "ok") != ((not coll2) or ver == "1.0"):
                        acc.violation("document-src", {"kind": "doc", "placed": placed, "version": ver, "src": j}, o,
                                      "document version %s with placements %s, #%d of them under the legacy 'src' arch (colliding pair after "
                                      "re-filing: %s): load -> %s" % (ver, placed, j, coll2, o["load"]))
                    elif coll2:
                        acc.outcome("doc-src:accepted-1.0" if ver == "1.0" else "doc-src:rejected")
        if len(hist) == 2:
            acc.sample({"header": header, "history": hist + [["add", "Server", "x86_64", 2]]}, limit=2)


def replay(case):
    if case["kind"] == "hist":
        return eval_hist(case["header"], case["hist"])
    if case["kind"] == "doc":
        return eval_doc(case["placed"], case["version"], case.get("src"))
    if case["kind"] == "docpath":
        return eval_doc_same_path(case["first"], case["second"], case["version"])
    return eval_identify(case["i"], case["drop"], case.get("then"))


KNOWN = {}


def describe(tier):
    return {
        "rule": "operations: add(cell, image) for 4 cells (2 variants x 2 arches; the quick tier uses 3 of them) x 14 pool images (A; same identity+same "
                "checksums; same identity+different checksums; same identity+superset of A's checksum types; 7 images differing from A in exactly one identity attribute; "
                "unified images with equal / different / differently ordered additional_variants), dumps(), reload (write+read into a fresh object), header.version assigned directly (1.0 / 1.1), one-image 1.2 documents loaded INTO the live manifest; "
                "initial header in {default 0.0, 1.0, 1.1, 1.2, 2.0}.  All histories up to the depth, deduplicated on the model "
                "state; lockstep model: refuse iff version >= 1.1 and an equal-identity image with different checksums is filed "
                "anywhere; refusal = ValueError and unchanged manifest incl. cells; every source state with placements is also "
                "written as a document re-headed to 1.0/1.1/1.2.  Non-trivial: a state reached by >= 2 operations.",
        "bound": "history depth <= %d" % depth(tier),
        "exhaustive": True,
        "model_binding": "the model is stepped in lockstep with the real Images object on every operation of every history; "
                         "traces_validated_against_impl counts complete histories compared",
        "assumptions": ["scope: the header said >= 1.1 at the time of every add (DESIGN.md section 4); mixed histories are "
                        "only compared with the model, not judged by the invariant"],
    }
