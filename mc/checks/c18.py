"""C18 - a dump that fails validation leaves the destination file untouched (fault enumeration).

Every `_validate*` method of every MetadataBase subclass is wrapped by a counting shim.  For every
format and base object one instrumented dump lists the validator invocations in execution order; then
for EVERY invocation index i a fresh object is dumped with the shim raising at the i-th invocation,
for both pre-states (no file / previous good copy).  Real invalid nested values are tried as well.
"""
import os
import shutil
import tempfile

from mc.build import ci as CI
from mc.build import im as IM
from mc.build import misc as MISC
from mc.build import ti as TI
from mc.core.util import exc_name

ID = "C18"
LEVEL = "fault_enumeration"
REQUIRED_OUTCOMES = ["fault:top-level:untouched", "fault:nested:untouched", "real-invalid:nested:untouched",
                     "pre:absent", "pre:existing"]


class Ctl(object):
    active = False
    count = 0
    fail_at = None
    log = []


_INSTALLED = False


def install_shims():
    global _INSTALLED
    if _INSTALLED:
        return
    import productmd.common
    import productmd.composeinfo, productmd.images, productmd.rpms, productmd.modules     # noqa
    import productmd.extra_files, productmd.treeinfo, productmd.discinfo                   # noqa

    def subclasses(c):
        out = [c]
        for s in c.__subclasses__():
            out.extend(subclasses(s))
        return out
    n = 0
    for cls in set(subclasses(productmd.common.MetadataBase)):
        for name, fn in list(vars(cls).items()):
            if name.startswith("_validate") and callable(fn):
                setattr(cls, name, _make_shim(name, fn))
                n += 1
    if n < 40:
        raise RuntimeError("seam lost: only %d _validate* methods found on MetadataBase subclasses" % n)
    _INSTALLED = True


def _make_shim(name, orig):
    def shim(self, *a, **kw):
        if Ctl.active:
            Ctl.count += 1
            Ctl.log.append("%s.%s" % (type(self).__name__, name))
            if Ctl.fail_at == Ctl.count:
                raise ValueError("injected validation failure #%d in %s.%s" % (Ctl.count, type(self).__name__, name))
        return orig(self, *a, **kw)
    shim.__name__ = name
    return shim


# ---- base objects --------------------------------------------------------------------------------

def _ti_dump(obj, path):
    obj.dump(path)


def _ti_dump_main(obj, path):
    obj.dump(path, main_variant=sorted(v.uid for v in obj.variants.variants.values())[-1])


BASES = {
    "composeinfo:flat": (lambda: CI.build(CI.seed_flat()), None),
    "composeinfo:forest": (lambda: CI.build(CI.seed_forest()), None),
    "composeinfo:layered": (lambda: CI.build(CI.seed_layered()), None),
    "images:grid": (lambda: IM.build(IM.seed_grid()), None),
    "images:v11": (lambda: IM.build(IM.seed_v11()), None),
    "rpms": (MISC.rpms, None),
    "modules": (MISC.modules, None),
    "extra_files": (MISC.extra_files, None),
    "treeinfo:flat": (lambda: TI.build(TI.seed_flat()), _ti_dump),
    "treeinfo:nested": (lambda: TI.build(TI.seed_nested()), _ti_dump_main),
    "treeinfo:layered": (lambda: TI.build(TI.seed_layered()), _ti_dump),
    "discinfo": (MISC.discinfo, None),
}


def get_base(base):
    """a named base object, or '["univ", fmt, seed, [edits]]': a state of the format's universe (thorough tier)"""
    if base in BASES:
        return BASES[base]
    import json
    _, fmt, seed, edits = json.loads(base)
    mod = {"ci": CI, "im": IM, "ti": TI}[fmt]

    def build():
        spec = dict(mod.SEEDS)[seed]()
        for e in edits:
            spec = mod.apply_spec(spec, e)
        return mod.build(spec)
    return build, (_ti_dump if fmt == "ti" else None)


def _corrupt_ci_label(o):
    o.compose.label = "GA"


def _corrupt_ci_release(o):
    o.release.version = "1."


def _corrupt_ci_child(o):
    o["Server-optional-lp"].name = ""


def _corrupt_ci_child_release(o):
    o["Server-optional-lp"].release.type = "bogus"


def _corrupt_im_image(o):
    sorted((i for v in o.images.values() for a in v.values() for i in a), key=lambda i: i.path)[-1].size = "big"


def _corrupt_compose_type(o):
    o.compose.type = "bogus"


def _corrupt_compose_date(o):
    o.compose.date = "2016"


def _corrupt_ti_child(o):
    o["Server-optional-extra"].type = "bogus"


def _corrupt_ti_images(o):
    o.images.images["x86_64"]["abs"] = "/abs/path.img"


def _corrupt_ti_media(o):
    o.media.discnum, o.media.totaldiscs = "one", 1


def _corrupt_ti_bp(o):
    o.base_product.version = "1.x"


def _corrupt_ti_checksums(o):
    o.checksums.checksums["/abs/file"] = ["sha256", "a" * 64]


def _corrupt_ti_stage2(o):
    o.stage2.mainimage = "/abs/stage2.img"


def _corrupt_di_bytes_description(o):
    o.description = b"Fedora 21"


def _corrupt_di_bytes_arch(o):
    o.arch = b"x86_64"


def _corrupt_di_disc_numbers(o):
    o.disc_numbers = "ALL"


def _corrupt_ti_image_key(o):
    o.images.images["x86_64"][None] = "images/none.img"


def _corrupt_ti_platform_key(o):
    o.tree.platforms = set(["x86_64", "xen", None])


def _corrupt_ti_checksum_value(o):
    o.checksums.checksums["images/boot.iso"] = ["sha256", None, "extra"]


def _corrupt_im_additional_variants_set(o):
    img = sorted((i for v in o.images.values() for a in v.values() for i in a), key=lambda i: i.path)[0]
    img.unified, img.additional_variants = True, set(["Client", "Server"])


def _corrupt_im_checksums_list(o):
    sorted((i for v in o.images.values() for a in v.values() for i in a), key=lambda i: i.path)[0].checksums = set(["sha256"])


def _corrupt_im_volume_id_bytes(o):
    sorted((i for v in o.images.values() for a in v.values() for i in a), key=lambda i: i.path)[0].volume_id = b"vol"


def _corrupt_ci_variant_name_bytes(o):
    o["Server"].name = b"Server"


def _corrupt_ci_release_name_set(o):
    o.release.name = set(["Fedora"])


def _corrupt_rpms_payload_set(o):
    o.rpms["Server"]["x86_64"]["bash-0:4.3-1.fc23.src"]["bash-0:4.3-1.fc23.x86_64"]["path"] = set([1, 2])


def _corrupt_modules_payload_bytes(o):
    o.modules["Server"]["x86_64"]["perl:5.26:20180101:abcdef"]["rpms"].append(b"perl.rpm")


def _corrupt_extra_payload_object(o):
    o.extra_files["Server"]["x86_64"][0]["size"] = object()


def _corrupt_im_checksum_value_set(o):
    sorted((i for v in o.images.values() for a in v.values() for i in a), key=lambda i: i.path)[-1].checksums = {"sha256": set([1])}


def _corrupt_ci_surrogate(o):
    o.release.name = "bad \udcff name"          # (what os.listdir() yields for a file name that is not valid UTF-8)


def _corrupt_ti_surrogate(o):
    o.release.name = "bad \udcff name"


def _corrupt_di_surrogate(o):
    o.description = "bad \udcff"


def _corrupt_im_surrogate(o):
    sorted((i for v in o.images.values() for a in v.values() for i in a), key=lambda i: i.path)[0].volume_id = "vol \udcff"


def _corrupt_rpms_surrogate(o):
    o.rpms["Server"]["x86_64"]["bash-0:4.3-1.fc23.src"]["bash-0:4.3-1.fc23.x86_64"]["path"] = "p/\udcff.rpm"


def _corrupt_im_collision_after_add(o):
    imgs = sorted((i for v in o.images.values() for a in v.values() for i in a), key=lambda i: i.path)
    a, b = imgs[0], imgs[1]
    for k in ("subvariant", "type", "format", "arch", "disc_number", "unified", "additional_variants"):
        setattr(b, k, getattr(a, k))
    b.checksums = {"sha256": "9" * 64}           # passes every dump-time validator; a loader would refuse the file


def _corrupt_di_disc_range(o):
    o.disc_numbers = ["1-2"]


# real invalid values whose defect sits in a nested part: (base, corrupting function)
REAL = [
    ("composeinfo:flat", _corrupt_ci_label), ("composeinfo:layered", _corrupt_ci_release),
    ("composeinfo:forest", _corrupt_ci_child), ("composeinfo:forest", _corrupt_ci_child_release),
    ("composeinfo:flat", _corrupt_compose_type),
    ("images:grid", _corrupt_im_image), ("images:v11", _corrupt_compose_date),
    ("rpms", _corrupt_compose_type), ("modules", _corrupt_compose_date), ("extra_files", _corrupt_compose_type),
    ("treeinfo:nested", _corrupt_ti_child), ("treeinfo:flat", _corrupt_ti_images), ("treeinfo:layered", _corrupt_ti_media),
    ("treeinfo:layered", _corrupt_ti_bp), ("treeinfo:flat", _corrupt_ti_checksums), ("treeinfo:flat", _corrupt_ti_stage2),
    # wrong-typed values of validated fields: json / ConfigParser / str.join cannot write them, so a validator that lets them
    # through moves the failure to the moment the file is already open
    ("discinfo", _corrupt_di_bytes_description), ("discinfo", _corrupt_di_bytes_arch), ("discinfo", _corrupt_di_disc_numbers),
    ("treeinfo:flat", _corrupt_ti_image_key), ("treeinfo:flat", _corrupt_ti_platform_key), ("treeinfo:flat", _corrupt_ti_checksum_value),
    ("images:grid", _corrupt_im_additional_variants_set), ("images:grid", _corrupt_im_checksums_list),
    ("images:v11", _corrupt_im_volume_id_bytes), ("composeinfo:forest", _corrupt_ci_variant_name_bytes),
    ("composeinfo:flat", _corrupt_ci_release_name_set),
    # payload tables are stored as given: values the file format cannot represent only fail when the text is built
    ("rpms", _corrupt_rpms_payload_set), ("modules", _corrupt_modules_payload_bytes), ("extra_files", _corrupt_extra_payload_object),
    ("images:grid", _corrupt_im_checksum_value_set),
    # text no file encoding can represent
    ("composeinfo:flat", _corrupt_ci_surrogate), ("treeinfo:flat", _corrupt_ti_surrogate), ("discinfo", _corrupt_di_surrogate),
    ("images:grid", _corrupt_im_surrogate), ("rpms", _corrupt_rpms_surrogate),
    # objects every dump-time validator accepts although a loader would refuse the written file: if the dump fails for
    # them (it need not), the destination must be untouched all the same
    ("images:grid", _corrupt_im_collision_after_add), ("discinfo", _corrupt_di_disc_range),
]
REAL_BY_NAME = {"%s/%s" % (b, f.__name__[9:]): (b, f) for b, f in REAL}


def _do_dump(base, obj, path, dest="str"):
    if dest == "pathlike":
        import pathlib
        path = pathlib.Path(path)        # a destination given as os.PathLike (whether it is supported is not C18's business)
    dumper = get_base(base)[1]
    if dumper:
        dumper(obj, path)
    else:
        obj.dump(path)


def trace_dump(base):
    """One instrumented, un-faulted dump: the validator invocations in execution order + how many belong to the top-level check."""
    install_shims()
    obj = get_base(base)[0]()
    tmp = tempfile.mkdtemp(prefix="c18-")
    try:
        Ctl.active, Ctl.count, Ctl.fail_at, Ctl.log = True, 0, None, []
        try:
            obj.validate()
        finally:
            Ctl.active = False
        top = Ctl.count
        Ctl.active, Ctl.count, Ctl.fail_at, Ctl.log = True, 0, None, []
        try:
            _do_dump(base, obj, os.path.join(tmp, "out"))
        finally:
            Ctl.active = False
        return list(Ctl.log), top
    finally:
        shutil.rmtree(tmp, ignore_errors=True)


def eval_fault(base, i, pre_existing, corrupt=None, dest="str"):
    """Dump with the i-th validator invocation failing (or with a really invalid nested value); report what happened to the path.
    pre_existing: False (no file), True (previous good copy), "hardlinked" (previous good copy that has a second name),
    "own" (previous good copy written - twice - by the same object whose next dump fails)."""
    install_shims()
    tmp = tempfile.mkdtemp(prefix="c18-")
    try:
        path = os.path.join(tmp, "metadata.out")
        before = None
        obj = None
        if pre_existing:
            first = get_base(base)[0]()
            _do_dump(base, first, path)
            with open(path, "rb") as f:
                before = f.read()
            if pre_existing == "hardlinked":
                os.link(path, os.path.join(tmp, "second-name"))
                ino = os.stat(path).st_ino
            if pre_existing == "own":
                # the good copy was written by the very object whose next dump fails (it may remember the path, keep the
                # text, a handle or a backup name from its first dump)
                _do_dump(base, first, path)
                obj = first
        if obj is None:
            obj = get_base(base)[0]()
        if corrupt:
            try:
                REAL_BY_NAME[corrupt][1](obj)
            except (TypeError, ValueError):
                # the value is refused already when it is assigned: there is no invalid object whose dump could fail
                return {"raised": None, "refused_at_assignment": True, "failed_in": None, "existed_before": before is not None,
                        "exists_after": os.path.exists(path), "bytes_unchanged": None, "size_after": None,
                        "still_the_same_hardlinked_file": None, "other_files": []}
        Ctl.active, Ctl.count, Ctl.fail_at, Ctl.log = True, 0, i, []
        raised = None
        try:
            _do_dump(base, obj, path, dest)
        except Exception as exc:                                       # noqa
            raised = exc_name(exc)
        finally:
            Ctl.active = False
        where = Ctl.log[-1] if Ctl.log else None
        exists = os.path.exists(path)
        after = None
        if exists:
            with open(path, "rb") as f:
                after = f.read()
        link_ok = None
        if pre_existing == "hardlinked":
            other = os.path.join(tmp, "second-name")
            link_ok = bool(exists and os.path.exists(other) and os.stat(path).st_ino == ino == os.stat(other).st_ino)
            if os.path.exists(other):
                with open(other, "rb") as f:
                    link_ok = link_ok and f.read() == before
        return {"raised": raised, "failed_in": where if i else None,
                "existed_before": before is not None, "exists_after": exists,
                "bytes_unchanged": (before == after) if (before is not None and exists) else None,
                "size_after": len(after) if after is not None else None, "still_the_same_hardlinked_file": link_ok,
                "other_files": sorted(x for x in os.listdir(tmp) if x not in ("metadata.out", "second-name"))}
    finally:
        shutil.rmtree(tmp, ignore_errors=True)


def eval_tree_writer(pre_existing, bad):
    """ExtraFiles.dump_for_tree - the manifest's second writer - handed a PATH (whether it accepts one is not C18's business)
    for a manifest holding an entry the file format cannot represent: if the call fails, the path keeps its pre-state."""
    tmp = tempfile.mkdtemp(prefix="c18-")
    try:
        path = os.path.join(tmp, "extra_files.json")
        before = None
        if pre_existing:
            with open(path, "w") as f:
                MISC.extra_files().dump_for_tree(f, "Server", "x86_64", "Server/x86_64/os")
            with open(path, "rb") as f:
                before = f.read()
        obj = MISC.extra_files()
        obj.extra_files["Server"]["x86_64"][1][bad[0]] = {"bytes": b"\x00\x01", "object": object(), "set": {1}}[bad[1]]
        raised = None
        try:
            obj.dump_for_tree(path, "Server", "x86_64", "Server/x86_64/os")
        except Exception as exc:                                       # noqa
            raised = exc_name(exc)
        exists = os.path.exists(path)
        after = open(path, "rb").read() if exists else None
        return {"raised": raised, "failed_in": None, "existed_before": before is not None, "exists_after": exists,
                "bytes_unchanged": (before == after) if (before is not None and exists) else None,
                "size_after": len(after) if after is not None else None, "still_the_same_hardlinked_file": None,
                "other_files": sorted(x for x in os.listdir(tmp) if x != "extra_files.json")}
    finally:
        shutil.rmtree(tmp, ignore_errors=True)


LOCALE_DRIVER = r"""
import json, locale, os, shutil, sys, tempfile
sys.path.insert(0, sys.argv[1]); sys.path.insert(0, sys.argv[2])
from mc.core.runner import bind_repo
bind_repo()
from mc.build import ci as CI, ti as TI, misc as MISC
text = "N\u00e4me \u65e5\u672c"
def ti_obj(t):
    return TI.build(TI.apply_spec(TI.seed_flat(), ["rel", "name", t]))
def di_obj(t):
    d = MISC.discinfo(); d.description = t; return d
def ci_obj(t):
    return CI.build(CI.apply_spec(CI.seed_flat(), ["rel", "name", t]))
out = {"encoding": locale.getpreferredencoding(False)}
TEXTS = {"": text, ":line-separators": "Fedora\u2028 21 a\x85b\u2029c"}      # (the second: only characters str.splitlines() splits at)
for suffix, text in sorted(TEXTS.items()):
  for fmt, mk, dump in (("treeinfo", ti_obj, lambda o, p: o.dump(p)), ("discinfo", di_obj, lambda o, p: o.dump(p)),
                        ("composeinfo", ci_obj, lambda o, p: o.dump(p))):
    fmt = fmt + suffix
    out[fmt] = {}
    for pre in ("absent", "existing"):
        tmp = tempfile.mkdtemp(prefix="c18-lc-")
        try:
            path = os.path.join(tmp, "metadata.out")
            before = None
            if pre == "existing":
                dump(mk("Plain name"), path)
                before = open(path, "rb").read()
            raised = None
            try:
                dump(mk(text), path)
            except Exception as exc:
                raised = type(exc).__name__
            exists = os.path.exists(path)
            after = open(path, "rb").read() if exists else None
            out[fmt][pre] = {"raised": raised, "existed_before": before is not None, "exists_after": exists,
                             "bytes_unchanged": (before == after) if (before is not None and exists) else None,
                             "size_after": len(after) if after is not None else None,
                             "other_files": sorted(x for x in os.listdir(tmp) if x != "metadata.out"),
                             "still_the_same_hardlinked_file": None}
        finally:
            shutil.rmtree(tmp, ignore_errors=True)
print("LOCALE " + json.dumps(out))
"""


def eval_locale(lc):
    """valid objects with non-ASCII text dumped to a PATH in an interpreter whose locale encoding is `lc` (e.g. C = ASCII):
    the file encoding may be unable to hold the text - then the dump fails, and the path must keep its pre-state"""
    import json
    import subprocess
    import sys
    from mc.core.runner import REPO, VERIF
    env = dict(os.environ, PYTHONDONTWRITEBYTECODE="1")
    env.update({"PYTHONUTF8": "0", "PYTHONCOERCECLOCALE": "0", "LC_ALL": lc, "LANG": lc})
    env.pop("LC_CTYPE", None)
    p = subprocess.run([sys.executable, "-X", "utf8=0", "-c", LOCALE_DRIVER, REPO, VERIF], env=env, stdout=subprocess.PIPE,
                       stderr=subprocess.PIPE, universal_newlines=True, encoding="ascii", errors="backslashreplace", timeout=300)
    for line in p.stdout.splitlines():
        if line.startswith("LOCALE "):
            return json.loads(line[7:])
    raise RuntimeError("locale driver failed: %s" % p.stderr[-1200:])


def untouched(o):
    if o["other_files"] or o.get("still_the_same_hardlinked_file") is False:
        return False
    if o["existed_before"]:
        return o["exists_after"] and o["bytes_unchanged"] is True
    return not o["exists_after"]


def units(tier, seed):
    bases = sorted(BASES)
    us = [("faults", b) for b in bases] + [("real", n) for n in sorted(REAL_BY_NAME)] + [("tree-writer",), ("locale", "C")]
    if tier == "thorough":
        # every state within one edit of every seed is a base object, too (its dump has its own sequence of validator calls)
        for fmt, mod in (("ci", CI), ("im", IM), ("ti", TI)):
            for name, mk in mod.SEEDS:
                edits = mod.edits(mk())
                k = seed % max(len(edits), 1)
                edits = edits[k:] + edits[:k]
                for i in range(0, len(edits), 4):
                    us.append(("faults-univ", fmt, name, edits[i:i + 4]))
    return us


def run_unit(unit, acc):
    if unit[0] == "tree-writer":
        for pre in (False, True):
            for bad in (["checksums", "bytes"], ["size", "object"], ["checksums", "set"]):
                o = eval_tree_writer(pre, bad)
                acc.ev()
                acc.nontriv(("tree-writer", pre, tuple(bad)))
                if o["raised"] is None:
                    acc.outcome("tree-writer:written")
                elif not untouched(o):
                    acc.violation("destination-touched:dump_for_tree", {"kind": "tree-writer", "pre_existing": pre, "bad": bad}, o,
                                  "ExtraFiles.dump_for_tree(path) of a manifest holding an entry the format cannot represent (%s) raised %s and "
                                  "the destination was %s" % (bad, o["raised"], ("left with %s bytes instead of the previous copy" % o["size_after"]) if pre else "created"))
                else:
                    acc.outcome("tree-writer:failed:untouched")
        return
    if unit[0] == "locale":
        res = eval_locale(unit[1])
        acc.extra["ascii_locale_encoding"] = res["encoding"]
        for fmt in ("treeinfo", "discinfo", "composeinfo", "treeinfo:line-separators", "discinfo:line-separators",
                    "composeinfo:line-separators"):
            for pre in ("absent", "existing"):
                o = res[fmt][pre]
                acc.ev()
                acc.nontriv(("locale", fmt, pre))
                if o["raised"] is None:
                    acc.outcome("locale:written")
                elif not untouched(o):
                    acc.violation("destination-touched:locale", {"kind": "locale", "lc": unit[1], "fmt": fmt, "pre": pre}, o,
                                  "%s with non-ASCII text dumped to a path under locale encoding %s raised %s and the destination was %s"
                                  % (fmt, res["encoding"], o["raised"], ("left with %s bytes instead of the previous copy" % o["size_after"]) if pre == "existing" else "created"))
                else:
                    acc.outcome("locale:failed:untouched")
        return
    if unit[0] == "faults-univ":
        import json
        _, fmt, name, edits = unit
        for e in edits:
            base = json.dumps(["univ", fmt, name, [e]])
            try:
                log, top = trace_dump(base)
            except (ValueError, TypeError):
                continue                                 # (this state is not a valid object: nothing to dump)
            if log:
                run_unit(("faults", base), acc)
        return
    if unit[0] == "faults":
        base = unit[1]
        try:
            log, top = trace_dump(base)
        except (ValueError, TypeError):
            acc.outcome("base:not-writable-without-any-fault")        # (a valid object that is refused is C06's business, not C18's)
            return
        if not log:
            raise RuntimeError("no validator invocation observed while dumping %s" % base)
        if base.startswith("["):
            acc.n["injection_points_in_universe_state_bases"] += len(log)
            acc.n["universe_state_bases"] += 1
        else:
            acc.extra.setdefault("injection_points", {})[base] = len(log)
        for i in range(1, len(log) + 1):
            for pre in (False, True, "hardlinked", "own"):
                o = eval_fault(base, i, pre)
                acc.ev()
                case = {"kind": "fault", "base": base, "i": i, "pre_existing": pre}
                nested = i > top
                acc.outcome("pre:existing" if pre else "pre:absent")
                if o["raised"] is None:
                    acc.violation("fault-swallowed", case, o, "%s: injected failure #%d (%s) did not make dump() raise" % (base, i, log[i - 1]))
                    continue
                if not untouched(o):
                    acc.violation("destination-touched:" + ("nested" if nested else "top"), case, o,
                                  "%s: dump failed at validator #%d %s (%s) and the destination was %s"
                                  % (base, i, log[i - 1], "nested writer" if nested else "top-level check",
                                     ("left with %s bytes instead of the previous copy" % o["size_after"]) if pre else "created"))
                else:
                    acc.outcome("fault:%s:untouched" % ("nested" if nested else "top-level"))
                if nested:
                    acc.nontriv((base, i, pre))
        acc.sample({"base": base, "validator_invocations": len(log), "top_level": top,
                    "fail_at": len(log), "validator": log[-1], "pre_state": "previous good copy"}, limit=3)
    else:
        name = unit[1]
        base = REAL_BY_NAME[name][0]
        for pre, dest in [(p, "str") for p in (False, True, "hardlinked", "own")] + [(False, "pathlike"), (True, "pathlike")]:
            o = eval_fault(base, None, pre, corrupt=name, dest=dest)
            acc.ev()
            case = {"kind": "real", "name": name, "pre_existing": pre, "dest": dest}
            if o["raised"] is None:
                # not C18's business whether this value is refused (that is C06); nothing failed, nothing to judge
                acc.outcome("real-invalid:accepted")
                continue
            if not untouched(o):
                acc.violation("destination-touched:real", case, o,
                              "%s: dump of an object with an invalid nested value raised %s and the destination was %s"
                              % (name, o["raised"], ("left with %s bytes instead of the previous copy" % o["size_after"]) if pre else "created"))
            else:
                acc.outcome("real-invalid:nested:untouched")
            acc.nontriv((name, pre))


def replay(case):
    if case["kind"] == "fault":
        return eval_fault(case["base"], case["i"], case["pre_existing"])
    if case["kind"] == "tree-writer":
        return eval_tree_writer(case["pre_existing"], case["bad"])
    if case["kind"] == "locale":
        return eval_locale(case["lc"])[case["fmt"]][case["pre"]]
    return eval_fault(REAL_BY_NAME[case["name"]][0], None, case["pre_existing"], corrupt=case["name"], dest=case.get("dest", "str"))


KNOWN = {}


def describe(tier):
    return {
        "rule": "for each of 12 base objects (composeinfo flat/forest/layered, images grid/1.1, rpms, modules, extra files, "
                "treeinfo flat/nested(with main_variant)/layered, discinfo): every validator invocation made during dump(path) - "
                "those of the top-level validate() and those made inside nested section writers - fails once (injected ValueError), "
                "for three pre-states {no file, previous good copy, previous good copy with a second hard link}; plus 38 really invalid values (16 out-of-domain nested values, 11 wrong-typed values of validated fields, 4 unencodable values in payload tables that are stored as given, 5 texts with a lone surrogate that no file encoding can represent, 2 objects that pass the dump-time validators although a loader would refuse the file).  Oracle: dump raises and "
                "the path has exactly its pre-state (same bytes / still absent), no other file appears.  Non-trivial: a failure "
                "point inside a nested writer (beyond the top-level check) or a real invalid value.",
        "bound": "one failure per dump; all injection points of each base object",
        "exhaustive": True,
        "assumptions": ["validation failures are raised from methods named _validate* found on MetadataBase subclasses "
                        "(the check fails as a harness error if fewer than 40 are found or none is invoked)",
                        "I/O errors while writing are not validation failures and are not injected"],
    }
