"""C06 - only objects meeting every documented field constraint can be written.

Bounded-exhaustive single corruption: every base object x every field position x every value of the
field's corruption alphabet (mc/models/validator_table.py) must make dumps() raise TypeError/ValueError.
Converse: every state of the k=1 composeinfo / images / treeinfo universes and one object per documented
enumeration value must be written without error.
"""
from mc.build import ci as CI
from mc.build import im as IM
from mc.build import misc as MISC
from mc.build import ti as TI
from mc.core.util import call, exc_name
from mc.models import validator_table as VT

ID = "C06"
LEVEL = "exploration"
REQUIRED_OUTCOMES = ["corrupt:refused", "corrupt:refused-after-a-good-write", "converse:written", "converse:enum-written", "order:refused-whatever-was-validated-first",
                     "position:nested-variant",
                     "position:image-in-cell", "position:layered-product-release"]


def _set(target_fn, attr):
    def setter(obj, value):
        setattr(target_fn(obj), attr, value)
    return setter


# ---- position enumerators: yield (label, kind, setter, values or None) ---------------------------

def _compose_positions(prefix, get):
    for f in ("id", "type", "date", "respin", "label"):
        yield "%scompose.%s" % (prefix, f), "compose." + f, _set(lambda o, g=get: g(o).compose, f), None


def positions_ci(obj):
    for p in _compose_positions("", lambda o: o):
        yield p
    if obj.compose.label:
        yield "compose.final", "compose.final", _set(lambda o: o.compose, "final"), None
    for f in ("name", "short", "version", "type", "is_layered", "internal"):
        yield "release." + f, "release." + f, _set(lambda o: o.release, f), None
    if obj.release.is_layered:
        for f in ("name", "short", "version", "type"):
            yield "base_product." + f, "release." + f, _set(lambda o: o.base_product, f), None
    uids = []

    def rec(container):
        for k in sorted(container.variants):
            v = container.variants[k]
            uids.append((v.uid, v.parent is not None, v.type))
            rec(v)
    rec(obj.variants)
    for uid, is_child, vtype in uids:
        tgt = (lambda o, u=uid: o[u])
        for f in ("id", "name", "type"):
            yield "variant[%s].%s" % (uid, f), "variant." + f, _set(tgt, f), None
        yield "variant[%s].arches" % uid, "variant.arches", (lambda o, v, t=tgt: setattr(t(o), "arches", set(v))), None
        yield "variant[%s].uid" % uid, None, _set(tgt, "uid"), ["Other-%s" % uid.split("-")[-1]] + (
            ["%s-Extra-%s" % tuple(uid.rsplit("-", 1)), "%s-x%s" % tuple(uid.rsplit("-", 1))] if is_child else [])

        def rename(o, val, u=uid):
            """id, UID and container key renamed together: only the id rule itself can refuse the object"""
            v = o[u]
            cont = v.parent if v.parent is not None else o.variants
            key = [k for k, x in cont.variants.items() if x is v][0]
            v.id = val
            v.uid = val if v.parent is None else "%s-%s" % (v.parent.uid, val)
            del cont.variants[key]
            cont.variants[val if isinstance(val, str) else key] = v
        if not obj[uid].variants and (not is_child or "-" not in uid.split("-", 1)[1]):
            yield "variant[%s].id+uid" % uid, "variant.id", rename, [x for x in VT.corrupt_values("variant.id") if isinstance(x, str) and x and "-" not in x]
        if is_child:
            yield ("variant[%s].arches+foreign" % uid, None,
                   (lambda o, v, t=tgt: setattr(t(o), "arches", set(t(o).arches) | {v})), ["ppc64"])
        if vtype == "layered-product":
            for f in ("name", "short", "version", "type", "internal"):
                yield ("variant[%s].release.%s" % (uid, f), "release." + f,
                       _set(lambda o, t=tgt: t(o).release, f), None)


def _images_sorted(obj):
    seen, out = set(), []
    for v in sorted(obj.images):
        for a in sorted(obj.images[v]):
            for img in sorted(obj.images[v][a], key=lambda i: i.path):
                if id(img) not in seen:
                    seen.add(id(img))
                    out.append(img)
    return out


def positions_im(obj):
    for p in _compose_positions("", lambda o: o):
        yield p
    for n, img in enumerate(_images_sorted(obj)):
        tgt = (lambda o, k=n: _images_sorted(o)[k])
        for f in IM.ATTRS:
            yield "image[%d:%s].%s" % (n, img.path, f), "image." + f, _set(tgt, f), None
        if not img.unified:
            yield "image[%d:%s].additional_variants:nonunified" % (n, img.path), None, _set(tgt, "additional_variants"), [["Client"]]


def positions_compose_only(obj):
    for p in _compose_positions("", lambda o: o):
        yield p


def positions_ti(obj):
    for f in ("name", "short", "version", "is_layered"):
        yield "release." + f, "ti.release." + f, _set(lambda o: o.release, f), None
    if obj.release.is_layered:
        for f in ("name", "short", "version"):
            yield "base_product." + f, "ti.release." + f, _set(lambda o: o.base_product, f), None
    yield "tree.arch", "ti.tree.arch", _set(lambda o: o.tree, "arch"), None
    yield "tree.build_timestamp", "ti.tree.build_timestamp", _set(lambda o: o.tree, "build_timestamp"), None
    uids = []

    def rec(container):
        for k in sorted(container.variants):
            v = container.variants[k]
            uids.append((v.uid, v.parent is not None))
            rec(v)
    rec(obj.variants)
    for uid, is_child in uids:
        tgt = (lambda o, u=uid: o[u])
        yield "variant[%s].id" % uid, "ti.variant.id", _set(tgt, "id"), None
        yield "variant[%s].type" % uid, "ti.variant.type", _set(tgt, "type"), None
        yield "variant[%s].name" % uid, "ti.variant.name", _set(tgt, "name"), None
        for kind in ("packages", "identity"):
            yield "variant[%s].paths.%s" % (uid, kind), "ti.variant.path", _set(lambda o, t=tgt: t(o).paths, kind), None
        if is_child:
            # wrong parent part; right beginning and right end with something in between; right end only; right beginning only
            head, tail = uid.rsplit("-", 1)
            yield "variant[%s].uid" % uid, None, _set(tgt, "uid"), ["Other-%s" % tail, "%s-Extra-%s" % (head, tail), "%sx-%s" % (head, tail),
                                                                    "%s-x%s" % (head, tail), "%s-%s-%s" % (head, tail, tail)]
    for platform in sorted(obj.images.images):
        for name in sorted(obj.images.images[platform]):
            yield ("images[%s][%s]" % (platform, name), "ti.image.path",
                   (lambda o, v, p=platform, n=name: o.images.images[p].__setitem__(n, v)), None)
    yield ("images[unreferenced-platform]", None,
           (lambda o, v: o.images.images.__setitem__(v, {"kernel": "images/vmlinuz"})),
           [x for x in ["zzz", obj.tree.arch[:3], obj.tree.arch.upper(), sorted(obj.tree.platforms | {obj.tree.arch})[-1][:-1] or "q"]
            if x not in obj.tree.platforms | {obj.tree.arch}])
    yield "stage2.mainimage", "ti.stage2.path", _set(lambda o: o.stage2, "mainimage"), None
    yield "stage2.instimage", "ti.stage2.path", _set(lambda o: o.stage2, "instimage"), None
    yield ("checksums[+absolute]", "ti.checksum.path",
           (lambda o, v: o.checksums.checksums.__setitem__(v, ["sha256", "a" * 64])), None)
    if obj.media.discnum is not None:
        yield "media.discnum", "ti.media.number", _set(lambda o: o.media, "discnum"), None
        yield "media.totaldiscs", "ti.media.number", _set(lambda o: o.media, "totaldiscs"), None


def positions_di(obj):
    for f in ("timestamp", "description", "arch", "disc_numbers"):
        yield f, "di." + f, _set(lambda o: o, f), None


def _ti_with_empty_tables():
    """image tables that exist but hold nothing (pre-created for every platform), before and after the filled ones"""
    ti = TI.build(TI.seed_nested())
    filled = list(ti.images.images.items())
    ti.images.images.clear()
    ti.images.images["aa-empty"] = {}
    for k, v in filled:
        ti.images.images[k] = v
    ti.images.images["zz-empty"] = {}
    ti.tree.platforms |= {"aa-empty", "zz-empty"}
    return ti


def _ti_dumps(o):
    return TI.dumps(o)


def _reloaded_images(im):
    import productmd.images as pi
    back = pi.Images()
    back.loads(im.dumps())
    return back


BASES = {
    "composeinfo:flat": (lambda: CI.build(CI.seed_flat()), positions_ci, None),
    "composeinfo:forest": (lambda: CI.build(CI.seed_forest()), positions_ci, None),
    "composeinfo:layered": (lambda: CI.build(CI.seed_layered()), positions_ci, None),
    "images:one": (lambda: IM.build(IM.seed_one()), positions_im, None),
    "images:grid": (lambda: IM.build(IM.seed_grid()), positions_im, None),
    "images:v11": (lambda: IM.build(IM.seed_v11()), positions_im, None),
    # the grid manifest as a reader hands it out: an image filed in several cells is one OBJECT PER CELL with the same path
    "images:grid-reloaded": (lambda: _reloaded_images(IM.build(IM.seed_grid())), positions_im, None),
    # a label whose milestone is not one of the "final" milestones
    "composeinfo:beta-label": (lambda: CI.build(CI.apply_spec(CI.seed_flat(), ["label", "Beta-1.2", False])), positions_ci, None),
    "rpms": (MISC.rpms, positions_compose_only, None),
    "modules": (MISC.modules, positions_compose_only, None),
    "extra_files": (MISC.extra_files, positions_compose_only, None),
    "treeinfo:flat": (lambda: TI.build(TI.seed_flat()), positions_ti, _ti_dumps),
    "treeinfo:nested": (lambda: TI.build(TI.seed_nested()), positions_ti, _ti_dumps),
    "treeinfo:empty-tables": (_ti_with_empty_tables, positions_ti, _ti_dumps),
    "treeinfo:layered": (lambda: TI.build(TI.seed_layered()), positions_ti, _ti_dumps),
    "discinfo": (MISC.discinfo, positions_di, None),
}
QUICK_BASES = ["composeinfo:forest", "composeinfo:layered", "composeinfo:beta-label", "images:grid", "images:grid-reloaded", "images:v11", "rpms", "modules", "extra_files",
               "treeinfo:nested", "treeinfo:empty-tables", "treeinfo:layered", "discinfo"]


def get_base(base):
    """a named base object, or '["univ", fmt, seed, [edits]]': a state of the format's universe (thorough tier)"""
    if base in BASES:
        return BASES[base]
    import json
    _, fmt, seed, edits = json.loads(base)
    mod = {"ci": CI, "im": IM, "ti": TI}[fmt]

    def build():
        spec = dict(mod.SEEDS)[seed]()
        for e in edits:
            spec = mod.apply_spec(spec, e)
        return mod.build(spec)
    return build, {"ci": positions_ci, "im": positions_im, "ti": positions_ti}[fmt], (_ti_dumps if fmt == "ti" else None)


def eval_corruption(base, label, vi, warm=False):
    """warm: the still valid object is written (and validated) successfully BEFORE the value is put in - an object that was
    fine a moment ago must be refused all the same ("validated already" marks, memoised validators, copies kept by a writer)"""
    build, positions, dumper = get_base(base)
    obj = build()
    if warm:
        r = call(dumper, obj) if dumper else call(obj.dumps)
        if r[0] != "ok":
            raise RuntimeError("base %s cannot be written" % base)
        call(obj.validate)
        call(dumper, obj) if dumper else call(obj.dumps)
    for lab, kind, setter, values in positions(obj):
        if lab == label:
            vals = values if values is not None else VT.corrupt_values(kind)
            try:
                setter(obj, vals[vi])
            except (TypeError, ValueError) as exc:
                # the library refuses the value already when it is assigned: no invalid object exists that could be written
                return {"value": repr(vals[vi]), "result": exc_name(exc), "refused_at": "assignment"}
            r = call(dumper, obj) if dumper else call(obj.dumps)
            return {"value": repr(vals[vi]), "result": "text returned" if r[0] == "ok" else r[1]}
    raise KeyError("%s has no position %s" % (base, label))


def eval_valid(fmt, seed, edits):
    mod = {"ci": CI, "im": IM, "ti": TI}[fmt]
    spec = dict(mod.SEEDS)[seed]()
    for e in edits:
        spec = mod.apply_spec(spec, e)
    r = call(lambda: (TI.dumps(mod.build(spec)) if fmt == "ti" else mod.build(spec).dumps()))
    return {"result": "written" if r[0] == "ok" else r[1]}


def eval_enum(what, value):
    if what == "image-tree-arch":
        spec = IM.seed_one()
        spec["cells"] = [["Server", value, 0]]
        r = call(lambda: IM.build(spec).dumps())
    elif what == "variant-arches":
        spec = CI.seed_flat()
        spec["variants"][0]["arches"] = sorted(value)
        r = call(lambda: CI.build(spec).dumps())
    else:
        raise KeyError(what)
    return {"result": "written" if r[0] == "ok" else r[1]}


def ci_valid(spec):
    uids = [v["uid"] for v, _, _ in CI.walk(spec["variants"])]
    return len(uids) == len(set(uids))


FIRST_VALIDATED = ["none", "ci.base_product", "ci.release", "ci.compose", "ci.variant", "ci.variants", "im.image", "ti.base_product",
                   "ti.release", "ti.tree", "ti.variant", "ti.media", "ti.stage2", "di"]
ORDER_DRIVER = r"""
import json, sys
sys.path.insert(0, sys.argv[1]); sys.path.insert(0, sys.argv[2])
from mc.core.runner import bind_repo
bind_repo()
from mc.checks import c06
from mc.build import ci as CI, im as IM, ti as TI, misc as MISC
first = sys.argv[3]
ci = CI.build(CI.seed_layered()); ti = TI.build(TI.seed_layered()); im = IM.build(IM.seed_grid())
target = {"none": None, "ci.base_product": ci.base_product, "ci.release": ci.release, "ci.compose": ci.compose,
          "ci.variant": ci["Sat"], "ci.variants": ci.variants, "im.image": sorted(im.images["Server"]["x86_64"], key=lambda i: i.path)[0],
          "ti.base_product": ti.base_product, "ti.release": ti.release, "ti.tree": ti.tree, "ti.variant": ti["Server"],
          "ti.media": ti.media, "ti.stage2": ti.stage2, "di": MISC.discinfo()}[first]
if target is not None:
    target.validate()                   # the FIRST validation made in this interpreter
bad = []
n = 0
for base in sys.argv[4].split(","):
    build, positions, dumper = c06.BASES[base]
    for label, kind, setter, values in positions(build()):
        vals = values if values is not None else c06.VT.corrupt_values(kind)
        for vi in range(len(vals)):
            o = c06.eval_corruption(base, label, vi)
            n += 1
            if o["result"] not in ("TypeError", "ValueError"):
                bad.append([base, label, vi, o])
print("ORDER " + json.dumps({"n": n, "bad": bad}))
"""


def eval_order(first, bases):
    import os
    import subprocess
    import sys
    from mc.core.runner import REPO, VERIF
    env = dict(os.environ, PYTHONDONTWRITEBYTECODE="1", PYTHONUTF8="1")
    p = subprocess.run([sys.executable, "-c", ORDER_DRIVER, REPO, VERIF, first, ",".join(bases)], env=env, stdout=subprocess.PIPE,
                       stderr=subprocess.PIPE, universal_newlines=True, timeout=600)
    for line in p.stdout.splitlines():
        if line.startswith("ORDER "):
            import json
            return json.loads(line[6:])
    raise RuntimeError("validation-order driver failed: %s" % p.stderr[-1200:])


LOCALE_DRIVER = r"""
import json, locale, sys
sys.path.insert(0, sys.argv[1]); sys.path.insert(0, sys.argv[2])
from mc.core.runner import bind_repo
bind_repo()
from mc.build import ci as CI, im as IM, ti as TI, misc as MISC
out = {"encoding": locale.getpreferredencoding(False)}
def attempt(name, fn):
    try:
        out[name] = ["ok", fn()]
    except Exception as exc:
        out[name] = ["exc", type(exc).__name__]
text = "N\u00e4me \u65e5\u672c"
attempt("composeinfo", lambda: CI.build(CI.apply_spec(CI.seed_flat(), ["rel", "name", text])).dumps())
attempt("treeinfo", lambda: TI.dumps(TI.build(TI.apply_spec(TI.seed_flat(), ["rel", "name", text]))))
def di():
    d = MISC.discinfo(); d.description = text + " 21"; return d.dumps()
attempt("discinfo", di)
def im():
    spec = IM.seed_one(); spec["images"][0]["subvariant"] = text; return IM.build(spec).dumps()
attempt("images", im)
# the JSON formats written to a PATH (their text is plain ASCII whatever the content, so the locale must not matter)
import os, tempfile
def to_path(make):
    d = tempfile.mkdtemp(prefix="c06-")
    try:
        p = os.path.join(d, "out.json")
        make().dump(p)
        return open(p, "rb").read().decode("utf-8")
    finally:
        import shutil; shutil.rmtree(d, ignore_errors=True)
attempt("composeinfo-to-path", lambda: to_path(lambda: CI.build(CI.apply_spec(CI.seed_flat(), ["rel", "name", text]))))
def im_obj():
    spec = IM.seed_one(); spec["images"][0]["subvariant"] = text; return IM.build(spec)
attempt("images-to-path", lambda: to_path(im_obj))
print("LOCALE " + json.dumps(out))
"""


def eval_locale(lc):
    """valid objects with non-ASCII text written to a STRING in an interpreter whose locale encoding is `lc` (None: UTF-8 mode)"""
    import json
    import os
    import subprocess
    import sys
    from mc.core.runner import REPO, VERIF
    env = dict(os.environ, PYTHONDONTWRITEBYTECODE="1")
    if lc is None:
        env["PYTHONUTF8"] = "1"
    else:
        env.update({"PYTHONUTF8": "0", "PYTHONCOERCECLOCALE": "0", "LC_ALL": lc, "LANG": lc})
        env.pop("LC_CTYPE", None)
    p = subprocess.run([sys.executable, "-X", "utf8=%d" % (1 if lc is None else 0), "-c", LOCALE_DRIVER, REPO, VERIF], env=env,
                       stdout=subprocess.PIPE, stderr=subprocess.PIPE, universal_newlines=True, encoding="ascii", errors="backslashreplace", timeout=300)
    for line in p.stdout.splitlines():
        if line.startswith("LOCALE "):
            return json.loads(line[7:])
    raise RuntimeError("locale driver failed: %s" % p.stderr[-1200:])


def units(tier, seed):
    bases = QUICK_BASES if tier == "quick" else sorted(BASES)
    us = [("corrupt", b) for b in bases]
    us += [("order", f) for f in FIRST_VALIDATED]
    for fmt, mod in (("ci", CI), ("im", IM), ("ti", TI)):
        for name, _ in mod.SEEDS:
            us.append(("converse", fmt, name))
    us.append(("enum",))
    us.append(("locale",))
    if tier == "thorough":
        # every state within one edit of every seed is a base object, too
        for fmt, mod in (("ci", CI), ("im", IM), ("ti", TI)):
            for name, mk in mod.SEEDS:
                edits = mod.edits(mk())
                k = seed % max(len(edits), 1)
                edits = edits[k:] + edits[:k]
                for i in range(0, len(edits), 6):
                    us.append(("corrupt-univ", fmt, name, edits[i:i + 6]))
    return us


def run_unit(unit, acc):
    if unit[0] == "locale":
        ref = eval_locale(None)
        o = eval_locale("C")
        acc.ev(6)
        acc.extra["ascii_locale_encoding"] = o["encoding"]
        for fmt in ("composeinfo", "treeinfo", "discinfo", "images", "composeinfo-to-path", "images-to-path"):
            acc.nontriv(("locale", fmt))
            if ref[fmt][0] != "ok":
                raise RuntimeError("the non-ASCII %s object is not written even in UTF-8 mode: %s" % (fmt, ref[fmt]))
            if o[fmt] != ref[fmt]:
                acc.violation("valid-refused:locale", {"kind": "locale", "lc": "C", "fmt": fmt}, {"differs_from_utf8_mode": True, "result": o[fmt][0]},
                              "a valid %s object with non-ASCII text, written in an interpreter whose locale encoding is %s: %s"
                              % (fmt, o["encoding"], o[fmt][1] if o[fmt][0] != "ok" else "text differs from the one written in UTF-8 mode"))
            else:
                acc.outcome("converse:written-under-ascii-locale")
        return
    if unit[0] == "corrupt-univ":
        import json
        _, fmt, name, edits = unit
        for e in edits:
            base = json.dumps(["univ", fmt, name, [e]])
            build, positions, dumper = get_base(base)
            r = call(lambda: (dumper(build()) if dumper else build().dumps()))
            if r[0] != "ok":
                continue                                # (not a valid object to begin with: the converse units judge that)
            if fmt == "ci":
                spec = CI.apply_spec(dict(CI.SEEDS)[name](), e)
                if not ci_valid(spec):
                    continue
            run_unit(("corrupt", base), acc)
        return
    if unit[0] == "corrupt":
        base = unit[1]
        build, positions, dumper = get_base(base)
        obj = build()
        npos = 0
        for label, kind, setter, values in positions(obj):
            npos += 1
            vals = values if values is not None else VT.corrupt_values(kind)
            for vi in range(len(vals)):
              for warm in (False, True):
                o = eval_corruption(base, label, vi, warm)
                acc.ev()
                if o["result"] not in ("TypeError", "ValueError"):
                    acc.violation("accepted:" + (kind or label.split(".")[-1]) + (":after-a-good-write" if warm else ""),
                                  {"kind": "corrupt", "base": base, "label": label, "vi": vi, "warm": warm}, o,
                                  "%s%s with %s = %s: dumps() %s (expected TypeError/ValueError)"
                                  % (base, " (written successfully just before)" if warm else "", label, o["value"],
                                     "returned text" if o["result"] == "text returned" else "raised " + o["result"]))
                else:
                    acc.outcome("corrupt:refused-after-a-good-write" if warm else "corrupt:refused")
                acc.nontriv((base, label, vi, warm))
            if label.startswith("variant[") and "-" in label.split("]")[0]:
                acc.outcome("position:nested-variant")
            if label.startswith("image["):
                acc.outcome("position:image-in-cell")
            if ".release." in label:
                acc.outcome("position:layered-product-release")
        if base.startswith("["):
            acc.n["positions_in_universe_state_bases"] += npos
            acc.n["universe_state_bases"] += 1
        else:
            acc.extra.setdefault("positions", {})[base] = npos
        acc.sample({"base": base, "position": label, "value": o["value"], "dumps": o["result"]}, limit=3)
    elif unit[0] == "order":
        bases = ["composeinfo:layered", "composeinfo:forest", "images:v11", "treeinfo:layered", "discinfo"]
        o = eval_order(unit[1], bases)
        acc.ev(o["n"])
        acc.nontriv(("order", unit[1]))
        if o["bad"]:
            b = o["bad"][0]
            acc.violation("accepted-after-first-validating:" + unit[1], {"kind": "order", "first": unit[1], "bases": bases},
                          {"accepted": [x[:3] for x in o["bad"]][:8]},
                          "in an interpreter whose first validation was %s.validate(): %s with %s (value #%d) is written (%d such positions)"
                          % (unit[1], b[0], b[1], b[2], len(o["bad"])))
        else:
            acc.outcome("order:refused-whatever-was-validated-first")
    elif unit[0] == "converse":
        _, fmt, name = unit
        mod = {"ci": CI, "im": IM, "ti": TI}[fmt]
        seed_spec = dict(mod.SEEDS)[name]()
        for e in [None] + mod.edits(seed_spec):
            edits = [] if e is None else [e]
            spec = seed_spec if e is None else mod.apply_spec(seed_spec, e)
            if fmt == "ci" and not ci_valid(spec):
                acc.outcome("converse:skipped-duplicate-uid")
                continue
            if fmt == "im" and e is not None and e[0] == "img" and isinstance(e[3], float):
                continue                    # the universe also holds plausible OUT-of-domain values (float mtime/size)
            if fmt == "ti" and e is not None and e[0] == "media" and e[1] and (e[1]["discnum"] is None) != (e[1]["totaldiscs"] is None):
                continue                    # ... and half-set media numbering (the section holds both numbers or does not exist)
            o = eval_valid(fmt, name, edits)
            acc.ev()
            if o["result"] != "written":
                acc.violation("valid-refused:" + fmt, {"kind": "valid", "fmt": fmt, "seed": name, "edits": edits}, o,
                              "valid %s object (%s + %s) is refused: %s" % (fmt, name, edits, o["result"]))
            else:
                acc.outcome("converse:written")
    else:
        from mc.models import ids
        for arch in ids.BINARY_ARCHES_DOC:
            o = eval_enum("image-tree-arch", arch)
            acc.ev()
            if o["result"] != "written":
                acc.violation("valid-refused:arch", {"kind": "enum", "what": "image-tree-arch", "value": arch}, o,
                              "images manifest under documented arch %s refused: %s" % (arch, o["result"]))
            else:
                acc.outcome("converse:enum-written")
        o = eval_enum("variant-arches", list(ids.BINARY_ARCHES_DOC))
        acc.ev()
        if o["result"] != "written":
            acc.violation("valid-refused:arch", {"kind": "enum", "what": "variant-arches", "value": list(ids.BINARY_ARCHES_DOC)}, o,
                          "composeinfo variant with every documented arch refused: %s" % o["result"])
        else:
            acc.outcome("converse:enum-written")


def replay(case):
    if case["kind"] == "locale":
        ref, o = eval_locale(None), eval_locale(case["lc"])
        return {"differs_from_utf8_mode": o[case["fmt"]] != ref[case["fmt"]], "result": o[case["fmt"]][0]}
    if case["kind"] == "corrupt":
        return eval_corruption(case["base"], case["label"], case["vi"], case.get("warm", False))
    if case["kind"] == "order":
        o = eval_order(case["first"], case["bases"])
        return {"accepted": [x[:3] for x in o["bad"]][:8]}
    if case["kind"] == "valid":
        return eval_valid(case["fmt"], case["seed"], case["edits"])
    return eval_enum(case["what"], case["value"])


KNOWN = {}


def describe(tier):
    return {
        "rule": "for each base object (%s) every field position (compose/release/base-product fields, every variant of the forest incl. "
                "layered-product releases, every image of every cell with its 15 attributes, tree/variant/image-table/stage2/checksum/"
                "media positions of a treeinfo, the 4 discinfo fields) x every value of the field's corruption alphabet in "
                "mc/models/validator_table.py (class representatives of the complement of the documented domain) -> dumps() must raise "
                "TypeError/ValueError.  Converse: every state within one edit of the composeinfo/images/treeinfo seeds (all documented "
                "release, compose, variant and image types, formats and label names) and every documented tree arch must be written; the corruption table of 5 bases is repeated in 14 fresh "
                "interpreters whose FIRST validation is that of a different class of object (hidden per-class state).  "
                "Non-trivial: every (base, position, value) triple." % (", ".join(QUICK_BASES if tier == "quick" else sorted(BASES))),
        "bound": "exactly one corrupted field per object",
        "exhaustive": True,
        "assumptions": ["uid = None and other values that crash with AttributeError are outside the documented-domain complement",
                        "header.version cannot be corrupted on write (the writer always sets the current version)"],
    }
