"""C13 - RPM name-[epoch:]version-release.arch strings are parsed back to their parts.

Bounded-exhaustive over a NEVRA grammar: names of 1..3 dash-separated segments over five segment
shapes x epochs x versions x releases x every arch in the library's table x directory prefixes x '.rpm'.
"""
import itertools

from mc.models import nvra
from mc.core.util import exc_name

ID = "C13"
LEVEL = "exploration"
REQUIRED_OUTCOMES = ["parse:ok", "epoch:absent", "epoch:nonzero", "prefix:dir", "suffix:rpm", "add:ok"]

SEGMENTS = ["a", "1", "a1", "a.b", "b_c+", "Py"]
EPOCHS = [None, "0", "1", "10", "007"]
VERSIONS = ["1", "1.2", "1~rc1", "1^git", "a", "1.2.3_4+5", "1.0~RC1"]
RELEASES = ["1", "1.el7", "0.1.rc9.el7cp", "2^a~b", "0.3.GA.el7"]
PREFIXES = ["", "/", "Packages/", "a-1/b-2.c/", "/abs/x-1-2.y/", "./", "http://host:8080/d-1/", "host:/export/x/", "d/" * 150]


def names(maxseg):
    out = []
    for n in range(1, maxseg + 1):
        for t in itertools.product(SEGMENTS, repeat=n):
            out.append("-".join(t))
    return out


def _arches():
    from mc.models import ids
    return list(ids.RPM_ARCHES_DOC)


def _call(fn, *a):
    try:
        return ["ok", fn(*a)]
    except Exception as exc:                                       # noqa
        return ["exc", exc_name(exc)]


def eval_parse(text):
    """parse, let the caller scribble over the result, parse again: both parses must give the parts"""
    import productmd.common
    import copy
    first = _call(productmd.common.parse_nvra, text)
    out = {"parsed": copy.deepcopy(first)}
    if first[0] == "ok" and isinstance(first[1], dict):
        first[1]["arch"] = "CALLER-EDIT"
        first[1]["name"] = str(first[1].get("name")) + "-debuginfo"
        again = _call(productmd.common.parse_nvra, text)
        if again != out["parsed"]:
            out["second_parse_after_caller_edit"] = again
    return out


def eval_add(text, arch):
    """File the RPM through Rpms.add and report the keys it was filed under."""
    import productmd.rpms
    r = productmd.rpms.Rpms()
    src = arch in ("src", "nosrc")
    res = _call(r.add, "Server", "x86_64", text, "Packages/x.rpm", None, "source" if src else "binary",
                None if src else "srcpkg-0:1-1.src")
    return {"result": res[0] if res[0] == "ok" else res, "table": r.rpms}


def units(tier, seed):
    arches = _arches()
    if tier == "quick":
        k = (seed * 8) % len(arches)
        sel = (arches + arches)[k:k + 8]
        for must in ("src", "noarch"):
            if must not in sel:
                sel.append(must)
        # every table arch with the one-segment names, the rotated selection with the two-segment names
        return [("name", n, arches if "-" not in n else sel) for n in names(2)]
    return [("name", n, arches) for n in names(3)]


def run_unit(unit, acc):
    _, name, arches = unit
    first = True
    for ep, ver, rel, arch in itertools.product(EPOCHS, VERSIONS, RELEASES, arches):
        want = {"name": name, "epoch": int(ep) if ep is not None else 0, "version": ver, "release": rel, "arch": arch}
        core = "%s-%s%s-%s.%s" % (name, (ep + ":") if ep is not None else "", ver, rel, arch)
        canon = nvra.canonical(want)
        for prefix in PREFIXES:
            for suffix in ("", ".rpm"):
                text = prefix + core + suffix
                o = eval_parse(text)
                acc.ev()
                if o != {"parsed": ["ok", want]}:
                    acc.violation("parse", {"kind": "parse", "text": text, "want": want}, o,
                                  "parse_nvra(%r) -> %s, generating parts %s" % (text, o["parsed"], want))
                    acc.outcome("parse:differs")
                else:
                    acc.outcome("parse:ok")
        # the reference splitter must agree with the generating parts too (binds the model used by C12)
        if nvra.split_nevra(core) != want:
            acc.extra.setdefault("harness_errors", []).append("reference splitter disagrees on %r" % core)
        # canonical re-formatting is a fixed point
        o = eval_parse(canon)
        acc.ev()
        if o != {"parsed": ["ok", want]}:
            acc.violation("fixedpoint", {"kind": "parse", "text": canon, "want": want}, o,
                          "canonical form %r does not parse back to its parts: %s" % (canon, o["parsed"]))
        # Rpms.add files the entry under the canonical key
        if ep is not None:
            src = arch in ("src", "nosrc")
            for spelled in ("a-1/b-2.c/" + core, core):                       # (also without the '.rpm' suffix)
                o2 = eval_add(spelled, arch)
                acc.ev()
                if o2["result"] != "ok" or list(list(o2["table"]["Server"]["x86_64"].values())[0]) != [canon]:
                    acc.violation("add-key", {"kind": "add", "text": spelled, "arch": arch}, o2,
                                  "Rpms.add(%r) filed %s, expected key %r" % (spelled, o2, canon))
            o = eval_add("Packages/" + core + ".rpm", arch)
            acc.ev()
            want_table = {"Server": {"x86_64": {(canon if src else "srcpkg-0:1-1.src"): {canon: {
                "sigkey": None, "path": "Packages/x.rpm", "category": "source" if src else "binary"}}}}}
            if o["result"] != "ok" or o["table"] != want_table:
                acc.violation("add-key", {"kind": "add", "text": "Packages/" + core + ".rpm", "arch": arch}, o,
                              "Rpms.add(%r) filed %s, expected key %r" % (core, o, canon))
            else:
                acc.outcome("add:ok")
        acc.outcome("epoch:absent" if ep is None else ("epoch:nonzero" if int(ep) else "epoch:zero"))
        acc.outcome("prefix:dir")
        acc.outcome("suffix:rpm")
        if ep not in (None, "0") or "-" in name or "." in rel:
            acc.nontriv(core)
        if first:
            acc.sample({"text": "a-1/b-2.c/" + core + ".rpm", "parts": want}, limit=2)
            first = False


def replay(case):
    if case["kind"] == "parse":
        return eval_parse(case["text"])
    return eval_add(case["text"], case["arch"])


KNOWN = {}


def describe(tier):
    return {
        "rule": "names = all sequences of 1..%d dash-separated segments over %s; epochs %s; versions %s; releases %s; "
                "%s; prefixes %s; with and without '.rpm'; plus canonical-form fixed point and Rpms.add key per core "
                "string.  Non-trivial: epoch present and not '0', or a dash in the name, or a dot in the release."
                % (2 if tier == "quick" else 3, SEGMENTS, EPOCHS, VERSIONS, RELEASES,
                   "every arch in RPM_ARCHES for one-segment names, 10 arches (rotated by VERIF_SEED, always incl. src and noarch) for two-segment names" if tier == "quick" else "every arch in RPM_ARCHES",
                   PREFIXES),
        "bound": "name segments <= %d" % (2 if tier == "quick" else 3),
        "exhaustive": True,
        "assumptions": ["segment/version/release shapes are class representatives of the documented character sets"],
    }
