"""C19 - validation and parsing time grows polynomially with input length.

For every regular expression the library hands to `re` (inventory recorded at run time in a fresh interpreter
+ static scan): (a) explicit-state exploration of the product automaton for exponential ambiguity - decides the
exponential/polynomial dichotomy for ALL input lengths; (b) every short string over the pattern's class alphabet
through a step-counting backtracking matcher whose results are compared with the real engine (model binding);
(c) pumped families prefix + pump^n + suffix in the step-counting matcher; (d) confirmation of every suspicion in
the real engine, in killable subprocesses.
"""
import ast
import glob
import itertools
import json
import math
import os
import re
import subprocess
import sys
import time

from mc.core.runner import REPO, VERIF
from mc.core.util import exc_name
from mc.models import regex_nfa as R

ID = "C19"
LEVEL = "model_checking"
REQUIRED_OUTCOMES = ["tiny-input:answered", "http:same-as-loads", "pattern:polynomial", "matcher-agrees-with-engine", "family:polynomial-growth", "inventory:runtime",
                     "inventory:static", "document-load:fast", "inventory:no-pattern-built-from-document-data", "structure:polynomial"]

DRIVER = r'''
import json, sys, re, glob, os
REPO = sys.argv[1]
sys.path.insert(0, REPO)
seen = {}
def note(pattern, flags, how):
    if hasattr(pattern, "pattern"):
        flags = pattern.flags & ~re.UNICODE
        pattern = pattern.pattern
    if isinstance(pattern, str):
        seen.setdefault((pattern, int(flags) & ~int(re.UNICODE)), set()).add(how)
for name in ("compile", "match", "search", "fullmatch", "split", "sub", "findall", "finditer", "subn"):
    orig = getattr(re, name)
    def wrap(orig=orig, name=name):
        def f(pattern, *a, **kw):
            if not sys._getframe(1).f_globals.get("__name__", "").startswith("productmd"):
                return orig(pattern, *a, **kw)          # only calls made by the library itself are inventoried
            flags = kw.get("flags", 0)
            if name == "compile" and a:
                flags = a[0]
            note(pattern, flags, name)
            return orig(pattern, *a, **kw)
        return f
    setattr(re, name, wrap())
import productmd, productmd.common as c, productmd.composeinfo as ci, productmd.images, productmd.rpms, productmd.modules
import productmd.extra_files, productmd.treeinfo as ti, productmd.discinfo, productmd.compose
sys.path.insert(0, sys.argv[2])
def safe(fn, *a):
    try:
        return fn(*a)
    except Exception:
        return None
for s in ("f", "fedora-server-23", "A!", ""):
    safe(c.is_valid_release_short, s); safe(c.is_valid_release_version, s); safe(c.is_valid_release_type, s)
    safe(c.split_version, s or "1.2")
safe(c.create_release_id, "f", "23", "updates", "rhel", "7", "ga"); safe(c.parse_release_id, "f-23-updates@rhel-7")
safe(c.parse_nvra, "Packages/b/bash-0:4.3-1.fc23.x86_64.rpm"); safe(c.parse_nvra, "junk")
safe(ci.get_date_type_respin, "F-23-20160102.n.1"); safe(ci.verify_label, "RC-1.0"); safe(ci.verify_label, "GA")
safe(productmd.modules.Modules.parse_uid, "a/b/perl:5.26:2018:abc"); safe(productmd.modules.Modules.parse_uid, "perl")
from mc.build import ci as CI, im as IM, ti as TI, misc as MISC
from mc.models import legacy, ini
texts = []
for seed in (CI.seed_forest, CI.seed_layered, CI.seed_two_level):
    o = CI.build(seed()); t = o.dumps(); texts.append(("ci", t))
    for v in ("0.2", "0.9", "1.0"):
        conv = legacy.composeinfo(json.loads(t), v)
        if conv: texts.append(("ci", json.dumps(conv[0])))
for seed in (IM.seed_grid, IM.seed_v11):
    texts.append(("im", IM.build(seed()).dumps()))
texts.append(("rpms", MISC.rpms().dumps())); texts.append(("modules", MISC.modules().dumps())); texts.append(("extra", MISC.extra_files().dumps()))
for kind, t in texts:
    cls = {"ci": ci.ComposeInfo, "im": productmd.images.Images, "rpms": productmd.rpms.Rpms, "modules": productmd.modules.Modules,
           "extra": productmd.extra_files.ExtraFiles}[kind]
    safe(cls().loads, t)
for seed in (TI.seed_nested, TI.seed_layered):
    t = TI.dumps(TI.build(seed()))
    safe(ti.TreeInfo().loads, t)
    from mc.checks.c07 import render
    safe(ti.TreeInfo().loads, render(legacy.treeinfo(ini.parse(t), "0.3")[0]))
for p in sorted(glob.glob(os.path.join(REPO, "tests", "treeinfo", "*")))[:80]:
    safe(ti.TreeInfo().load, p)
d = MISC.discinfo(); safe(productmd.discinfo.DiscInfo().loads, d.dumps())
# tainted documents: every string of the document carries a marker with regex metacharacters; a recorded pattern that contains the
# raw marker was built from document data without escaping
MARK = "Zq.9+Zq"
def taint(x):
    if isinstance(x, dict):
        return {((k + MARK) if isinstance(k, str) and k[:1].isupper() else k): taint(v) for k, v in x.items()}
    if isinstance(x, list):
        return [taint(v) for v in x]
    if isinstance(x, str) and x not in ("productmd.composeinfo", "productmd.images", "productmd.rpms", "productmd.modules", "productmd.extra_files") \
            and not x[:1].isdigit():
        return x + MARK
    return x
before = set(seen)
for kind, t in texts:
    cls = {"ci": ci.ComposeInfo, "im": productmd.images.Images, "rpms": productmd.rpms.Rpms, "modules": productmd.modules.Modules,
           "extra": productmd.extra_files.ExtraFiles}[kind]
    base = json.loads(t)
    for section in sorted(base["payload"]):                       # one tainted section at a time, so that later readers are reached
        doc = json.loads(t)
        doc["payload"][section] = taint(doc["payload"][section])
        safe(cls().loads, json.dumps(doc))
        if section == "variants":                                 # only the UIDs (keys and uid fields)
            doc = json.loads(t)
            doc["payload"][section] = {k + MARK: dict(v, uid=v["uid"] + MARK) for k, v in doc["payload"][section].items()}
            safe(cls().loads, json.dumps(doc))
for seed in (TI.seed_nested, TI.seed_layered, TI.seed_flat):
    t = TI.dumps(TI.build(seed()))
    for ver in ("1.2", "0.3"):
        secs = legacy.treeinfo(ini.parse(t), ver)[0] if ver != "1.2" else [(n, [(k, v) for k, v in o if not k.startswith(";")]) for n, o in ini.parse(t)]
        names = [n for n, _ in secs if n != "header"]
        for target in names + ["*"]:                                  # one tainted section at a time, then all of them
            new = [(n, [(k, (v + MARK) if (target in (n, "*")) and n != "header" and not v[:1].isdigit() and v not in ("true", "false") else v)
                        for k, v in o]) for n, o in secs]
            safe(ti.TreeInfo().loads, render(new))
        # the arch and the UIDs also name sections: taint value and section names consistently
        new = [(n.replace("x86_64", "x86_64" + MARK), [(k, v.replace("x86_64", "x86_64" + MARK)) for k, v in o]) for n, o in secs]
        safe(ti.TreeInfo().loads, render(new))
        new = [(n.replace("Server", "Server" + MARK), [(k, v.replace("Server", "Server" + MARK)) for k, v in o]) for n, o in secs]
        safe(ti.TreeInfo().loads, render(new))
    safe(ti.TreeInfo().loads, "[general]\nfamily = Foo%s\nversion = 1%s\narch = x86_64\nvariant = Server%s\naddons = HA%s\n" % (MARK, MARK, MARK, MARK))
    safe(ti.TreeInfo().loads, "[general]\nfamily = Foo\nversion = 1\narch = x86_64%s\nvariant = Server\n[images-xen-x86_64%s]\nkernel = k\n" % (MARK, MARK))
tainted = sorted([p, f] for (p, f) in seen if MARK in p)
print("TAINTED " + json.dumps(tainted))
print("INVENTORY " + json.dumps(sorted([p, f, sorted(h)] for (p, f), h in seen.items() if MARK not in p)))
'''


def runtime_inventory():
    env = dict(os.environ, PYTHONDONTWRITEBYTECODE="1", PYTHONUTF8="1")
    p = subprocess.run([sys.executable, "-c", DRIVER, REPO, VERIF], env=env, stdout=subprocess.PIPE, stderr=subprocess.PIPE,
                       universal_newlines=True, timeout=300)
    tainted = []
    for line in p.stdout.splitlines():
        if line.startswith("TAINTED "):
            tainted = json.loads(line[8:])
        if line.startswith("INVENTORY "):
            return [(pat, fl, how) for pat, fl, how in json.loads(line[10:])], tainted
    raise RuntimeError("inventory driver failed: %s" % p.stderr[-1500:])


def static_inventory():
    """string constants handed to re.* functions or listed in _assert_matches_re calls, by AST scan of productmd/*.py"""
    out = set()
    for path in sorted(glob.glob(os.path.join(REPO, "productmd", "*.py"))):
        tree = ast.parse(open(path).read())
        for node in ast.walk(tree):
            if not isinstance(node, ast.Call):
                continue
            fn = node.func
            name = fn.attr if isinstance(fn, ast.Attribute) else getattr(fn, "id", "")
            is_re = isinstance(fn, ast.Attribute) and isinstance(fn.value, ast.Name) and fn.value.id == "re"
            if (is_re and name in ("compile", "match", "search", "fullmatch", "split", "sub", "findall")) or name == "_assert_matches_re":
                for arg in node.args[:2]:
                    for sub in ast.walk(arg):
                        if isinstance(sub, ast.Constant) and isinstance(sub.value, str) and sub.value and \
                                any(ch in sub.value for ch in "^$*+?[(\\"):
                            out.add(sub.value)
    return sorted(out)


# ---- per-pattern analysis ---------------------------------------------------------------------------

def class_chars(tree, flags):
    """one representative character per distinct character class of the pattern (+ characters no class matches)"""
    nfa = R.build_nfa(tree, flags)
    masks = {}
    for (_, _, pred, label) in nfa.pos:
        m = tuple(pred(ch) for ch in R.REP_ALPHABET)
        masks.setdefault(m, label)
    # atoms: characters with distinct membership vectors
    atoms = {}
    for i, ch in enumerate(R.REP_ALPHABET):
        vec = tuple(m[i] for m in masks)
        if vec not in atoms or (not atoms[vec].isalnum() and ch.isalnum()):
            atoms[vec] = ch
    chars = sorted(atoms.values(), key=lambda c: (not c.isalnum(), c))
    return chars[:7]


def families(chars, prefix_hint, pump_hint, deep=False):
    """deep (the pattern is ambiguous in theory): also every two- and three-character suffix - the continuation that makes the
    match FAIL after the ambiguous part may need more than one character (`a...a//` for `^([^/]+/?)+$`)"""
    pumps = []
    for n in (1, 2):
        for t in itertools.product(chars[:5], repeat=n):
            pumps.append("".join(t))
    if pump_hint and pump_hint not in pumps:
        pumps.insert(0, pump_hint)
    sufs = [""] + chars[:6]
    if deep:
        sufs += ["".join(t) for n in (2, 3) for t in itertools.product(chars[:5], repeat=n)]
    pres = [""] + ([prefix_hint] if prefix_hint else []) + chars[:2]
    seen = set()
    for pre in pres:
        for pump in pumps:
            for suf in sufs:
                key = (pre, pump, suf)
                if key not in seen:
                    seen.add(key)
                    yield key


def model_growth(run, pre, pump, suf, budget, lengths):
    """steps of the model matcher on pre + pump^n + suf for total pumped lengths in `lengths`"""
    out = []
    for L in lengths:
        n = max(1, L // len(pump))
        s = pre + pump * n + suf
        res = run(s, budget)
        out.append((len(s), res[2], res[0] == "budget"))
        if res[0] == "budget":
            break
    return out


def local_degree(points):
    """log-log slope between the last two measured points"""
    if len(points) < 2:
        return 0.0
    (l1, s1, _), (l2, s2, _) = points[-2], points[-1]
    if s1 <= 0 or l2 <= l1:
        return 0.0
    return math.log(max(s2, 1) / max(s1, 1)) / math.log(l2 / l1)


TIMER = r'''
import re, sys, time, json
pat, flags, how = sys.argv[1], int(sys.argv[2]), sys.argv[3]
rx = re.compile(pat, flags)
fn = rx.search if how == "search" else rx.match
out = []
for s in json.loads(sys.stdin.read()):
    t = time.process_time(); fn(s); out.append(time.process_time() - t)      # CPU seconds
    print("T %d %.6f" % (len(s), out[-1]), flush=True)
'''


def real_times(pattern, flags, strings, how="match", timeout=20):
    """seconds per string in the real engine; a string that did not finish within the timeout counts as the timeout"""
    try:
        p = subprocess.run([sys.executable, "-c", TIMER, pattern, str(flags), how], input=json.dumps(strings),
                           stdout=subprocess.PIPE, stderr=subprocess.PIPE, universal_newlines=True, timeout=timeout)
        lines = p.stdout.splitlines()
    except subprocess.TimeoutExpired as exc:
        lines = (exc.stdout.decode() if isinstance(exc.stdout, bytes) else (exc.stdout or "")).splitlines()
    times = [float(l.split()[2]) for l in lines if l.startswith("T ")]
    while len(times) < len(strings):
        times.append(float(timeout))
    return times


def eval_pattern(pattern, flags, tier, how="match"):
    """Everything about one pattern; the verdict fields are the ones the oracle judges."""
    out = {"pattern": pattern, "flags": flags}
    try:
        tree = R.parse(pattern, flags)
        nfa = R.build_nfa(tree, flags)
        run = R.compile_matcher(tree, flags)
    except R.Unsupported as exc:
        out["unsupported"] = str(exc)
        tree = run = None
    if tree is not None:
        a = R.analyse(nfa)
        out.update({"eda": a["eda"], "witness": a["witness"], "positions": a["positions"], "nfa_states": a["nfa_states"],
                    "product_pairs_explored": a["pairs_explored"], "product_edges": a["edges"],
                    "degree_lower_bound": a.get("degree_lower_bound"), "notes": a["notes"]})
        chars = class_chars(tree, flags)
        out["class_alphabet"] = chars
        # (b) all short strings: model matcher vs real engine
        rx = re.compile(pattern, flags)
        L = 5 if tier == "quick" else 6
        alpha = chars[:6]
        disagreements, nstr, maxsteps = [], 0, 0
        for n in range(0, L + 1):
            for t in itertools.product(alpha, repeat=n):
                s = "".join(t)
                end, groups, steps = run(s, 10 ** 6)
                m = rx.match(s)
                nstr += 1
                maxsteps = max(maxsteps, steps)
                if (m.end() if m else None) != end:
                    disagreements.append(s)
                elif m:
                    for idx in range(1, rx.groups + 1):
                        if (m.span(idx) if m.span(idx) != (-1, -1) else None) != groups.get(idx):
                            disagreements.append(s)
                            break
        out.update({"short_strings": nstr, "short_string_max_steps": maxsteps, "matcher_disagreements": disagreements[:5]})
        # (c) pumped families in the model matcher
        budget = 3 * 10 ** 5 if tier == "quick" else 3 * 10 ** 6
        worst = None
        nfam = 0
        exceeded = 0
        for pre, pump, suf in families(chars, a.get("prefix"), a.get("pump"), deep=bool(a.get("eda"))):
            pts = model_growth(run, pre, pump, suf, budget, (8, 16, 32, 48))
            nfam += 1
            score = (pts[-1][2], local_degree(pts), pts[-1][1])
            if worst is None or score > worst[0]:
                worst = (score, (pre, pump, suf), pts)
            exceeded += 1 if pts[-1][2] else 0
            if exceeded >= 5:
                break           # (five families already exhaust the step budget: the real engine decides on the worst of them; going
                                #  through the remaining thousands at the full budget each only costs time on a tree that is broken)
        out["families"] = nfam
        out["worst_family"] = {"prefix": worst[1][0], "pump": worst[1][1], "suffix": worst[1][2],
                               "points_len_steps": [[p[0], p[1]] for p in worst[2]], "budget_exceeded": worst[0][0],
                               "local_degree": round(worst[0][1], 2)}
        pre, pump, suf = worst[1]
    else:
        pre, pump, suf = "", "a", "!"
    # (d) real engine: short-input stall and growth on the worst family
    stall_len = 48
    n = max(1, (stall_len - len(pre) - len(suf)) // len(pump))
    probe = pre + pump * n + suf
    suspicious = tree is None or out.get("eda") or out["worst_family"]["budget_exceeded"]
    out["suspicious"] = bool(suspicious)
    if suspicious:
        # growth per added pump, measured where a polynomial cannot imitate an exponential: with n pumps a polynomial of
        # degree d grows by (1 + 1/n)^d per pump, which is < 1.5 for every d <= 8 once n >= 20; an exponentially ambiguous
        # pattern keeps its factor (>= 1.5) for every n.  The family is extended until the 25 s guard stops the subprocess.
        counts = list(range(8, 61))
        strs = [pre + pump * c + suf for c in counts]
        lens = [len(x) for x in strs]
        times = real_times(pattern, flags, strs, how, timeout=25)
        sustained = 0
        best = 0
        for i in range(len(times) - 1):
            if counts[i] < 20 or times[i] <= 2e-4:
                continue
            r = times[i + 1] / max(times[i], 1e-6)
            sustained = sustained + 1 if r >= 1.5 else 0
            best = max(best, sustained)
        t48 = real_times(pattern, flags, [probe], how, timeout=6)[0]
        out["real_engine"] = {"family_pump_counts": [counts[0], counts[-1]], "family_lengths": [lens[0], lens[-1]],
                              "family_seconds": [round(t, 5) for t in times],
                              "sustained_growth_steps": best, "probe_length": len(probe), "probe_seconds": round(t48, 3)}
        out["verdict_superpolynomial"] = bool(best >= 6 or (times[-1] >= 25 and best >= 3))
        out["verdict_short_input_stalls"] = bool(t48 > 2.0)
    else:
        out["verdict_superpolynomial"] = False
        out["verdict_short_input_stalls"] = False
    return out


def verdict_only(o):
    keep = ("pattern", "flags", "eda", "suspicious", "verdict_superpolynomial", "verdict_short_input_stalls", "unsupported")
    return {k: o.get(k) for k in keep}


DOC_PROBE = r'''
import sys, json, time
sys.path.insert(0, sys.argv[1]); sys.path.insert(0, sys.argv[2])
import productmd.composeinfo as ci, productmd.common as c, productmd.modules, productmd.treeinfo as ti
from mc.build import ci as CI
name, value = sys.argv[3], sys.argv[4]
t = time.process_time()          # CPU time: a busy machine must not look like a stall
try:
    if name in ("release.version", "release.short", "compose.id", "compose.date", "compose.label", "variant.id"):
        doc = json.loads(CI.build(CI.seed_flat()).dumps())
        sec, key = name.split(".")
        if sec == "variant":
            doc["payload"]["variants"]["Server"][key] = value
        else:
            doc["payload"][sec][key] = value
        ci.ComposeInfo().loads(json.dumps(doc))
    elif name == "short": c.is_valid_release_short(value)
    elif name == "version": c.is_valid_release_version(value)
    elif name == "type": c.is_valid_release_type(value)
    elif name == "release_id": c.parse_release_id(value)
    elif name == "nvra": c.parse_nvra(value)
    elif name == "uid": productmd.modules.Modules.parse_uid(value)
    elif name == "compose_id": ci.get_date_type_respin(value)
    elif name == "label": ci.verify_label(value)
    elif name.startswith("images.number:"):
        import productmd.images
        from mc.build import im as IM
        text = IM.build(IM.seed_one()).dumps()
        field = name.split(":")[1]
        import re as _re
        text = _re.sub(r'"%s": [0-9]+' % field, '"%s": %s' % (field, value), text, count=1)
        productmd.images.Images().loads(text)
    elif name == "treeinfo.timestamp":
        from mc.build import ti as TI
        text = TI.dumps(TI.build(TI.seed_flat())).replace("build_timestamp = 1417653911", "build_timestamp = %s" % value)
        ti.TreeInfo().loads(text)
    elif name == "discinfo.timestamp":
        import productmd.discinfo
        productmd.discinfo.DiscInfo().loads("%s\nFedora 21\nx86_64\nALL\n" % value)
    elif name == "treeinfo00.version":
        ti.TreeInfo().loads("[general]\nfamily = Foo\nversion = %s\narch = x86_64\nvariant = Server\n" % value)
except Exception:
    pass
print("ELAPSED %.4f" % (time.process_time() - t))
'''

DOC_PROBES = [
    ("short", "a" * 47 + "!"), ("type", "a" * 47 + "!"), ("version", "1" * 47 + "!"), ("version", "1." * 23 + "!"),
    ("release_id", "a-" * 23 + "!"), ("nvra", "a-" * 24), ("nvra", "a-1:" * 12), ("nvra", "-" * 47 + "."),
    ("uid", "a/" * 23 + "::"), ("uid", "a:" * 24), ("compose_id", "1" * 47 + "!"), ("compose_id", "12345678." * 5 + "!"),
    ("label", "RC-" + "1" * 44 + "!"), ("release.version", "1" * 47 + "!"), ("release.version", "1." * 23 + "!"),
    ("compose.id", "1" * 47), ("compose.date", "1" * 48), ("compose.label", "RC-" + "1" * 44 + "x"),
    ("variant.id", "a" * 47 + "-"), ("treeinfo00.version", "21_" + "0" * 40 + "beta"), ("treeinfo00.version", "1." * 22 + "x"),
    # number literals: a few characters that denote an astronomically large value
    ("images.number:mtime", "1E+999999"), ("images.number:size", "1e99999999"), ("images.number:disc_number", "9" * 40),
    ("images.number:mtime", "1E+4000"), ("treeinfo.timestamp", "1e999999"), ("treeinfo.timestamp", "9" * 45), ("discinfo.timestamp", "1e9999999"),
]


def eval_doc_probe(name, value):
    env = dict(os.environ, PYTHONDONTWRITEBYTECODE="1", PYTHONUTF8="1")
    t0 = time.time()
    try:
        p = subprocess.run([sys.executable, "-c", DOC_PROBE, REPO, VERIF, name, value], env=env, stdout=subprocess.PIPE,
                           stderr=subprocess.PIPE, universal_newlines=True, timeout=20)
        el = [float(l.split()[1]) for l in p.stdout.splitlines() if l.startswith("ELAPSED ")]
        return {"finished": bool(el), "stalls": bool(el and el[0] > 2.0)}
    except subprocess.TimeoutExpired:
        return {"finished": False, "stalls": True, "waited": round(time.time() - t0, 1)}


# ---- structural pump families: documents whose STRUCTURE is pumped (work counted deterministically) --------------------

def _ci_doc(variants):
    return json.dumps({"header": {"type": "productmd.composeinfo", "version": "1.2"},
                       "payload": {"compose": {"id": "F-23-20160102.0", "type": "production", "date": "20160102", "respin": 0},
                                   "release": {"name": "F", "short": "f", "version": "23", "type": "ga", "internal": False},
                                   "variants": variants}})


def _ci_var(uid, vid, children):
    d = {"id": vid, "uid": uid, "name": uid, "type": "variant", "arches": ["x86_64"], "paths": {}}
    if children:
        d["variants"] = children
    return d


def fam_ci_chain(n, dup):
    variants = {}
    uid = "A"
    variants[uid] = _ci_var(uid, "A", ["a", "a"] if dup else ["a"])
    for i in range(n):
        child = uid + "-a"
        variants[child] = _ci_var(child, "a", (["a", "a"] if dup else ["a"]) if i < n - 1 else [])
        uid = child
    return "ci", _ci_doc(variants)


def fam_ci_wide(n, dup=False):
    kids = ["k%d" % i for i in range(n)]
    variants = {"A": _ci_var("A", "A", kids)}
    for k in kids:
        variants["A-" + k] = _ci_var("A-" + k, k, [])
    return "ci", _ci_doc(variants)


def fam_ci_prefix(n, dup=False):
    """pre-1.0: variants related by UID prefix only"""
    variants = {}
    uid = "a"
    for i in range(n):
        variants[uid] = _ci_var(uid, "a", [])
        uid += "-a"
    doc = json.loads(_ci_doc(variants))
    doc["header"] = {"version": "0.9"}
    return "ci", json.dumps(doc)


def fam_ti_general_addons(n, dup=False):
    return "ti", "[general]\nfamily = Foo\nversion = 1\narch = x86_64\nvariant = Server\naddons = %s\n" % ",".join("a%d" % i for i in range(n))


def fam_ti_sections_by_id(n, dup=False):
    """header-less tree: two [variant-<id>] sections per level, each listing the next level's two"""
    out = ["[general]", "family = Foo", "version = 1", "arch = x86_64", "variant = L0a", ""]
    for lvl in range(n):
        for side in "ab":
            out.append("[variant-L%d%s]" % (lvl, side))
            if lvl < n - 1:
                out.append("variants = L%da,L%db" % (lvl + 1, lvl + 1))
            out.append("")
    return "ti", "\n".join(out)


def fam_ti_addon_chain(n, dup):
    out = ["[header]", "type = productmd.treeinfo", "version = 1.2", "[release]", "name = F", "short = F", "version = 1",
           "[tree]", "arch = x86_64", "build_timestamp = 1", "platforms = x86_64", "variants = A"]
    uid = "A"
    for i in range(n + 1):
        child = uid + "-a"
        out += ["[%s-%s]" % ("variant" if i == 0 else "addon", uid), "id = %s" % ("A" if i == 0 else "a"), "uid = %s" % uid, "name = x",
                "type = %s" % ("variant" if i == 0 else "addon")]
        if i < n:
            out.append("addons = %s" % (",".join([child, child]) if dup else child))
        uid = child
    return "ti", "\n".join(out) + "\n"


def fam_ti_shared_addons(n, dup=False):
    """1.x tree: two variants per level, BOTH naming the same two addon sections of the next level (UIDs cannot align with both)"""
    out = ["[header]", "type = productmd.treeinfo", "version = 1.2", "[release]", "name = F", "short = F", "version = 1",
           "[tree]", "arch = x86_64", "build_timestamp = 1", "platforms = x86_64", "variants = L0a,L0b"]
    for lvl in range(n):
        for side in "ab":
            uid = "L%d%s" % (lvl, side)
            kind = "variant" if lvl == 0 else "addon"
            out += ["[%s-%s]" % (kind, uid), "id = %s" % uid, "uid = %s" % uid, "name = x", "type = %s" % kind]
            if lvl < n - 1:
                out.append("addons = L%da,L%db" % (lvl + 1, lvl + 1))
    return "ti", "\n".join(out) + "\n"


def fam_ti_interpolation(n, dup=False):
    """ConfigParser value interpolation: a chain of 9 options each naming the previous one n times"""
    out = ["[header]", "type = productmd.treeinfo", "version = 1.2", "[release]", "name = F", "short = F", "version = 1",
           "[tree]", "arch = x86_64", "build_timestamp = 1", "platforms = x86_64", "[checksums]", "a0 = sha256:" + "a" * 8]
    for i in range(1, 9):
        out.append("a%d = %s" % (i, "%%(a%d)s" % (i - 1) * n))
    return "ti", "\n".join(out) + "\n"


def fam_im_many(n, dup=False):
    from mc.build import im as IM
    imgs = []
    for i in range(n):
        d = IM.imgspec(i)
        d.pop("unified"); d.pop("additional_variants")
        imgs.append(d)
    return "im", json.dumps({"header": {"type": "productmd.images", "version": "1.2"},
                             "payload": {"compose": {"id": "F-23-20160102.0", "type": "production", "date": "20160102", "respin": 0},
                                         "images": {"Server": {"x86_64": imgs}}}})


def _nested(n, leaf, as_list=False):
    v = leaf
    for _ in range(n):
        v = [v] if as_list else {"a": v}
    return v


def _manifest_doc(kind, table):
    return json.dumps({"header": {"type": "productmd.%s" % kind, "version": "1.2"},
                       "payload": {"compose": {"id": "F-23-20160102.0", "type": "production", "date": "20160102", "respin": 0},
                                   kind: table}}, separators=(",", ":"))


def fam_payload_nested(kind, as_list):
    """the manifest table (stored as given by the three manifest readers) nested n levels deep"""
    def gen(n, dup=False):
        inner = _nested(n, {"path": "Server/x86_64/os/a.rpm", "n": 1} if not as_list else ["x", 1], as_list)
        return kind, _manifest_doc(kind, {"Server": {"x86_64": inner}})
    return gen


STRUCT_FAMILIES = {
    "composeinfo-chain": (fam_ci_chain, False), "composeinfo-chain-children-listed-twice": (fam_ci_chain, True),
    "composeinfo-wide": (fam_ci_wide, False), "composeinfo-0.9-prefix-chain": (fam_ci_prefix, False),
    "treeinfo-general-addons-list": (fam_ti_general_addons, False), "treeinfo00-sections-by-id": (fam_ti_sections_by_id, False),
    "treeinfo-addon-chain": (fam_ti_addon_chain, False), "treeinfo-addon-chain-listed-twice": (fam_ti_addon_chain, True),
    "treeinfo-interpolation-fanout": (fam_ti_interpolation, False), "images-many-in-cell": (fam_im_many, False),
    "treeinfo-shared-addon-sections": (fam_ti_shared_addons, False),
    "rpms-table-nested-dicts": (fam_payload_nested("rpms", False), False),
    "rpms-table-nested-lists": (fam_payload_nested("rpms", True), False),
    "modules-table-nested-dicts": (fam_payload_nested("modules", False), False),
    "extra_files-table-nested-lists": (fam_payload_nested("extra_files", True), False),
    "extra_files-table-nested-dicts": (fam_payload_nested("extra_files", False), False),
}
STEP_CAP = 250000


HARD_CAP = 2000000


class Abort(BaseException):
    pass


def count_calls(fn, hard_cap=None):
    """number of Python function calls made while fn() runs (a deterministic work measure); aborted beyond HARD_CAP
    (calls of C functions - str.strip, file.readline - are counted for the abort only: a loop of them must end, too)"""
    import signal
    n = [0]
    c = [0]
    cap = hard_cap or HARD_CAP

    def prof(frame, event, arg):
        if event == "call":
            n[0] += 1
            if n[0] > cap:
                raise Abort()
        elif event == "c_call":
            c[0] += 1
            if c[0] > 8 * cap:
                raise Abort()

    def alarm(signum, frame):
        raise Abort()
    old = signal.signal(signal.SIGALRM, alarm)
    signal.alarm(120)                        # backstop only; the verdict never depends on it
    limit = sys.getrecursionlimit()
    sys.setrecursionlimit(1000)              # the interpreter default: runaway recursion must end as it does for a caller
    sys.setprofile(prof)
    try:
        try:
            fn()
        except Abort:
            return cap + 1
        except RecursionError:
            pass
        except Exception:                                              # noqa  (a rejected document is fine: we count work)
            pass
    finally:
        sys.setprofile(None)
        sys.setrecursionlimit(limit)
        signal.alarm(0)
        signal.signal(signal.SIGALRM, old)
    return n[0]


def eval_struct(name):
    import productmd.composeinfo, productmd.images, productmd.treeinfo          # noqa
    import productmd.rpms, productmd.modules, productmd.extra_files              # noqa
    gen, dup = STRUCT_FAMILIES[name]
    sizes, steps, nbytes = [], [], []
    for n in range(2, 26):
        fmt, text = gen(n, dup)
        cls = {"ci": productmd.composeinfo.ComposeInfo, "im": productmd.images.Images, "ti": productmd.treeinfo.TreeInfo,
               "rpms": productmd.rpms.Rpms, "modules": productmd.modules.Modules,
               "extra_files": productmd.extra_files.ExtraFiles}[fmt]
        c = count_calls(lambda: cls().loads(text))
        sizes.append(n)
        steps.append(c)
        nbytes.append(len(text))
        if c > STEP_CAP and (c > HARD_CAP or len(text) > 1024):
            break                       # (sizes are attempted until the work exceeds the hard cap or the document exceeds 1 KiB)
    measured = [c for c in steps if c <= HARD_CAP]                 # (aborted loads only tell "more than the cap")
    ratios = [measured[i + 1] / float(max(measured[i], 1)) for i in range(len(measured) - 1)]
    # exponential (or worse): over the last 5 steps the growth ratio stays >= 1.7 AND does not fall off - for a polynomial of any
    # degree the ratio ((n+1)/n)^d keeps shrinking towards 1, for c^n it is constant, for n! it rises
    last = ratios[-5:]
    exponential = len(last) == 5 and min(last) >= 1.7 and last[-1] >= 0.9 * max(last)
    # stall: a document of at most 1 KiB needs more than HARD_CAP Python calls (several seconds) - whatever the growth law
    stalls = any(c > HARD_CAP and b <= 1024 for c, b in zip(steps, nbytes))
    return {"sizes": sizes, "steps": steps, "bytes": nbytes, "exponential": bool(exponential),
            "stalls": bool(stalls and not exponential), "last_ratios": [round(r, 2) for r in last]}


# ---- every tiny input, every transfer mode ------------------------------------------------------------

TINY_TOKENS = ["\n", " ", "1", "x", "[a]", "a=b", "{", "}", "#", "\"", "[header]", "version = 1.2"]
TINY_CAP = 20000


def tiny_loaders():
    import productmd.composeinfo, productmd.images, productmd.rpms, productmd.modules, productmd.extra_files   # noqa
    import productmd.treeinfo, productmd.discinfo                                                             # noqa
    return {"composeinfo": productmd.composeinfo.ComposeInfo, "images": productmd.images.Images, "rpms": productmd.rpms.Rpms,
            "modules": productmd.modules.Modules, "extra_files": productmd.extra_files.ExtraFiles,
            "treeinfo": productmd.treeinfo.TreeInfo, "discinfo": productmd.discinfo.DiscInfo}


def tiny_inputs(depth):
    out = [""]
    level = [""]
    for _ in range(depth):
        level = [a + t for a in level for t in TINY_TOKENS]
        out += level
    return out


def eval_tiny(loader, text):
    cls = tiny_loaders()[loader]
    c = count_calls(lambda: cls().loads(text), hard_cap=TINY_CAP)
    return {"ends": c <= TINY_CAP}


class _FakeSocket(object):
    def __init__(self, raw):
        self.raw = raw

    def makefile(self, *a, **k):
        import io
        return io.BytesIO(self.raw)


HTTP_MODES = ["content-length", "close-delimited", "chunked-1", "chunked-7", "chunked-whole", "content-length-empty-body"]


def http_response(body, mode):
    import http.client
    data = body.encode("utf-8")
    if mode == "content-length":
        raw = b"HTTP/1.1 200 OK\r\nContent-Length: %d\r\n\r\n" % len(data) + data
    elif mode == "content-length-empty-body":
        raw = b"HTTP/1.1 200 OK\r\nContent-Length: 0\r\n\r\n"
    elif mode == "close-delimited":
        raw = b"HTTP/1.0 200 OK\r\n\r\n" + data
    else:
        k = {"1": 1, "7": 7, "whole": max(len(data), 1)}[mode.split("-")[1]]
        chunks = b"".join(b"%x\r\n" % len(data[i:i + k]) + data[i:i + k] + b"\r\n" for i in range(0, len(data), k))
        raw = b"HTTP/1.1 200 OK\r\nTransfer-Encoding: chunked\r\n\r\n" + chunks + b"0\r\n\r\n"
    r = http.client.HTTPResponse(_FakeSocket(raw))
    r.begin()
    return r


def http_documents():
    from mc.build import ci as CI, im as IM
    from mc.checks import c08
    docs = {"composeinfo": CI.build(CI.seed_layered()).dumps(), "images": IM.build(IM.seed_grid()).dumps()}
    for fmt, name in (("rpms", "rpms"), ("modules", "modules"), ("extra", "extra_files")):
        docs[name] = c08.build(c08.content_of([fmt, 0]), {})[1]
    docs["composeinfo-nonascii"] = docs["composeinfo"].replace("Fedora", "F\u00e9dora \u2603")
    return docs


def eval_http(name, mode):
    """The document served as an HTTP response body (the object urlopen() hands to load()), in every transfer mode."""
    text = http_documents()[name]
    cls = tiny_loaders()[name.split("-")[0]]
    want = cls()
    want.loads(text)
    got = cls()
    out = {}

    def go():
        try:
            got.load(http_response(text, mode))
            out["load"] = "ok"
        except Exception as exc:                                             # noqa
            out["load"] = exc_name(exc)
    c = count_calls(go, hard_cap=STEP_CAP)
    if c > STEP_CAP:
        return {"ends": False}
    if mode == "content-length-empty-body":
        return {"ends": True, "refused": out.get("load") != "ok"}
    return {"ends": True, "load": out.get("load"), "same_as_loads": out.get("load") == "ok" and got.dumps() == want.dumps()}


# ---- exploration --------------------------------------------------------------------------------

def inventory():
    rt, tainted = runtime_inventory()
    st = static_inventory()
    pats = {}
    for pat, fl, how in rt:
        pats[(pat, fl)] = {"how": how, "source": "runtime"}
    for pat in st:
        if not any(k[0] == pat for k in pats):
            pats[(pat, 0)] = {"how": ["static"], "source": "static-only"}
    return pats, len(rt), len(st), tainted


def units(tier, seed):
    pats, nrt, nst, tainted = inventory()
    us = [("pattern", pat, fl, sorted(info["how"]), info["source"], tier) for (pat, fl), info in sorted(pats.items())]
    us.append(("docs",))
    us.append(("inventory", nrt, nst, tainted))
    for name in sorted(STRUCT_FAMILIES):
        us.append(("struct", name))
    for loader in sorted(tiny_loaders()):
        us.append(("tiny", loader, 2 if tier == "quick" else 3))
    us.append(("http",))
    return us


def run_unit(unit, acc):
    if unit[0] == "inventory":
        if unit[1] >= 15:
            acc.outcome("inventory:runtime")
        if unit[2] >= 10:
            acc.outcome("inventory:static")
        acc.extra["patterns_recorded_at_runtime"] = unit[1]
        acc.extra["patterns_found_statically"] = unit[2]
        for pat, fl in unit[3]:
            acc.ev()
            acc.violation("pattern-built-from-document-data", {"kind": "taint"}, {"data_derived_patterns": True},
                          "document data reaches the re module unescaped: while loading a document whose strings carry the marker "
                          "'Zq.9+Zq' the library compiled/matched the pattern %r - any document can smuggle in a nested quantifier" % pat)
        if not unit[3]:
            acc.outcome("inventory:no-pattern-built-from-document-data")
        return
    if unit[0] == "tiny":
        _, loader, d = unit
        eval_tiny(loader, "{}")                                           # (imports done before anything is counted)
        for text in tiny_inputs(d):
            o = eval_tiny(loader, text)
            acc.ev()
            acc.trace()
            if not o["ends"]:
                acc.violation("tiny-input-never-ends:" + loader, {"kind": "tiny", "loader": loader, "text": text}, o,
                              "%s.loads(%r): a %d-character input is not answered within %d calls" % (loader, text, len(text), TINY_CAP))
            else:
                acc.outcome("tiny-input:answered")
        acc.nontriv(("tiny", loader))
        return
    if unit[0] == "http":
        for name in sorted(http_documents()):
            for mode in HTTP_MODES:
                o = eval_http(name, mode)
                acc.ev()
                acc.nontriv(("http", name, mode))
                case = {"kind": "http", "name": name, "mode": mode}
                if not o["ends"]:
                    acc.violation("http-load-never-ends", case, o, "load() of %s served as an HTTP response (%s) is not answered within %d calls"
                                  % (name, mode, STEP_CAP))
                elif mode == "content-length-empty-body":
                    acc.outcome("http:empty-body-refused" if o["refused"] else "http:empty-body-accepted")
                elif not o["same_as_loads"]:
                    acc.violation("http-load-differs", case, o, "load() of %s served as an HTTP response (%s): %s, not the result of loads()"
                                  % (name, mode, o["load"]))
                else:
                    acc.outcome("http:same-as-loads")
        return
    if unit[0] == "struct":
        o = eval_struct(unit[1])
        acc.ev(len(o["sizes"]))
        acc.nontriv(("struct", unit[1]))
        acc.extra.setdefault("structural_families", {})[unit[1]] = o
        if o["exponential"] or o["stalls"]:
            acc.violation("structure:" + unit[1], {"kind": "struct", "name": unit[1]}, {"superpolynomial_or_stall": True},
                          "document family %s: work (Python calls made by the loader) per size parameter %s = %s for %s bytes - %s"
                          % (unit[1], o["sizes"], o["steps"], o["bytes"], "doubling growth sustained" if o["exponential"] else "stall"))
        else:
            acc.outcome("structure:polynomial")
        return
    if unit[0] == "docs":
        for name, value in DOC_PROBES:
            o = eval_doc_probe(name, value)
            acc.ev()
            acc.nontriv(("doc", name, value))
            if o["stalls"]:
                acc.violation("entry-point-stalls:" + name, {"kind": "doc", "name": name, "value": value}, o,
                              "%s with the %d-character value %r did not finish within 2 s" % (name, len(value), value))
            else:
                acc.outcome("document-load:fast")
        return
    _, pat, fl, how, source, tier = unit
    o = eval_pattern(pat, fl, tier, "search" if how == ["search"] else "match")
    acc.ev(o.get("short_strings", 0) + o.get("families", 0))
    acc.trans(o.get("product_edges", 0))
    acc.trace(o.get("short_strings", 0))
    acc.n["product_pairs_explored"] += o.get("product_pairs_explored", 0)
    acc.n["nfa_states"] += o.get("nfa_states", 0)
    for i in range(o.get("product_pairs_explored", 0) + o.get("nfa_states", 1)):
        acc.states.add(hash((pat, i)) & 0xFFFFFFFFFFFF)
    acc.nontriv((pat, fl))
    acc.extra.setdefault("patterns", {})[pat] = {
        "used_by": how, "eda": o.get("eda"), "degree_lower_bound": o.get("degree_lower_bound"),
        "worst_family": o.get("worst_family"), "unsupported": o.get("unsupported"), "notes": o.get("notes")}
    case = {"kind": "pattern", "pattern": pat, "flags": fl, "how": how, "tier": tier}
    if o.get("matcher_disagreements"):
        acc.extra.setdefault("harness_errors", []).append("step-counting matcher disagrees with re on %r for pattern %r"
                                                          % (o["matcher_disagreements"], pat))
    elif "short_strings" in o:
        acc.outcome("matcher-agrees-with-engine")
    if o["verdict_superpolynomial"]:
        acc.violation("exponential", case, verdict_only(o),
                      "pattern %r: exponential ambiguity (witness %s); real engine on %r + %r*n + %r: %s"
                      % (pat, o.get("witness"), o.get("worst_family", {}).get("prefix"), o.get("worst_family", {}).get("pump"),
                         o.get("worst_family", {}).get("suffix"), o.get("real_engine")))
    elif o["verdict_short_input_stalls"]:
        acc.violation("short-input-stalls", case, verdict_only(o),
                      "pattern %r: a %d-character input takes %s s in the real engine"
                      % (pat, o["real_engine"]["probe_length"], o["real_engine"]["probe_seconds"]))
    else:
        acc.outcome("pattern:polynomial")
        if o.get("eda"):
            acc.outcome("pattern:ambiguous-in-theory-not-confirmed-by-engine")
        if "worst_family" in o and not o["worst_family"]["budget_exceeded"]:
            acc.outcome("family:polynomial-growth")
    acc.sample({"pattern": pat, "eda": o.get("eda"), "worst_family": o.get("worst_family")}, limit=4)


def replay(case):
    if case["kind"] == "taint":
        return {"data_derived_patterns": bool(runtime_inventory()[1])}
    if case["kind"] == "struct":
        o = eval_struct(case["name"])
        return {"superpolynomial_or_stall": bool(o["exponential"] or o["stalls"])}
    if case["kind"] == "doc":
        return eval_doc_probe(case["name"], case["value"])
    if case["kind"] == "tiny":
        eval_tiny(case["loader"], "{}")
        return eval_tiny(case["loader"], case["text"])
    if case["kind"] == "http":
        return eval_http(case["name"], case["mode"])
    return verdict_only(eval_pattern(case["pattern"], case["flags"], case["tier"], "search" if case["how"] == ["search"] else "match"))


def _treeinfo00_sections_by_id(case, observed):
    return case.get("kind") == "struct" and case.get("name") == "treeinfo00-sections-by-id" and observed.get("superpolynomial_or_stall") is True


KNOWN = {"treeinfo00_sections_by_id": _treeinfo00_sections_by_id}


def describe(tier):
    return {
        "rule": "inventory = every (pattern, flags) handed to re.compile/match/search/fullmatch/split/sub/findall while a fresh "
                "interpreter imports productmd and drives all public validators/parsers and load+dump of documents of every format and "
                "older version (incl. the pre-productmd treeinfo fixtures), united with an AST scan of productmd/*.py.  Per pattern: (a) "
                "epsilon-NFA from re._parser's tree, exploration of the position graph and of the product automaton for the "
                "exponential-ambiguity criterion (two distinct paths q -> q over one word, incl. distinct epsilon routes); (b) every string "
                "of length <= %d over one representative per character class through a step-counting backtracking matcher, match end and "
                "all group spans compared with the real engine; (c) all families prefix + pump^n + suffix with pumps of length <= 2 over the "
                "class alphabet at lengths 8..48 in the step-counting matcher; (d) for suspicious patterns (ambiguity witness or step budget "
                "exceeded) the worst family in the real engine in a killable subprocess.  Judged: super-polynomial = growth ratio >= 1.5 per "
                "2 characters over >= 6 consecutive lengths in the real engine; stall = a <= 48-character input needs > 2 s.  Plus: documents whose every string carries a marker with regex metacharacters - no pattern handed to re may "
                "contain it (data-built patterns); 11 structural pump families (variant chains with children listed once / twice, wide child "
                "lists, prefix-related 0.9 variants, pre-productmd addon lists and sections matched by id, addon chains, interpolation fan-out, "
                "many images in a cell) whose loader work is counted in Python calls per size parameter (exponential = the growth ratio stays >= 1.7 over the last 5 "
                "sizes without falling off; for a polynomial it shrinks towards 1); 21 "
                "entry-point probes (validators, parsers, composeinfo/treeinfo loads with pumped 48-character values).  Non-trivial: every "
                "pattern and probe." % (5 if tier == "quick" else 6),
        "bound": "ambiguity: all lengths; strings <= %d; families up to length 48 (+ real engine up to 32)" % (5 if tier == "quick" else 6),
        "exhaustive": True,
        "model_binding": "traces_validated_against_impl = short strings on which the model matcher and re agreed on match end and groups",
        "assumptions": ["cost model is CPython's sre; look-arounds and anchors are epsilon in the ambiguity analysis (over-approximation, "
                        "every suspicion is confirmed in the real engine before it is reported)",
                        "the polynomial degree is reported, not judged"],
    }
