"""C15 - compose IDs encode date, type and respin recoverably.

Bounded-exhaustive grid over release x base product x compose (type, date, respin by digit length),
the decoder suffix table (all lowercase suffixes of length <= 3), and legacy (< 0.3) documents.
"""
import itertools
import json

from mc.models import ids
from mc.core.util import exc_name

ID = "C15"
LEVEL = "exploration"
REQUIRED_OUTCOMES = ["encode:ok", "decode:known-suffix", "decode:unknown-suffix-rejected", "legacy:loaded", "legacy:loaded-other-spelling",
                     "layered", "respin:absent"]

SHORTS = ["F", "rhel", "my-prod", "x86"]
VERSIONS = ["22", "7.1", "Rawhide", "20160101", "123456789", "2016.01012016"]
DATES = ["20160622", "00000000", "99999999", "19700101"]
RESPINS = [0, 9, 10, 99, 100, 999, 1000, 9999, 10000, 99999, 100000, 999999, 1000000, 9999999,
           10000000, 99999999]


def _call(fn, *a):
    try:
        r = fn(*a)
        return ["ok", list(r) if isinstance(r, tuple) else r]
    except Exception as exc:                                          # noqa
        return ["exc", exc_name(exc)]


def eval_encode(rel, bp, ctype, date, respin):
    """rel = (short, version, type); bp = None or (short, version, type)."""
    import productmd.composeinfo as pc
    ci = pc.ComposeInfo()
    ci.release.name = "N"
    ci.release.short, ci.release.version, ci.release.type = rel
    if bp:
        ci.release.is_layered = True
        ci.base_product.name = "B"
        ci.base_product.short, ci.base_product.version, ci.base_product.type = bp
    ci.compose.type, ci.compose.date, ci.compose.respin = ctype, date, respin
    made = _call(ci.create_compose_id)
    out = {"id": made, "validate": None, "decoded": None}
    if made[0] == "ok":
        ci.compose.id = made[1]
        out["validate"] = _call(ci.compose.validate)
        out["decoded"] = _call(pc.get_date_type_respin, made[1])
        # the respin workflow: the id is stored, the respin bumped, the id created again
        ci.compose.respin = respin + 1 if respin + 1 < 10 ** 8 else 0
        again = _call(ci.create_compose_id)
        out["next_respin_decoded"] = _call(pc.get_date_type_respin, again[1]) if again[0] == "ok" else again
    return out


def eval_rhel5(version, bp_version, variants, ctype, date, respin):
    """release RHEL 5.x based on RHEL 5: the id also names the first variant if it is Client or Server"""
    import productmd.composeinfo as pc
    from mc.build import ci as CI
    spec = CI.seed_flat()
    spec["release"].update({"name": "Red Hat Enterprise Linux", "short": "RHEL", "version": version, "is_layered": True})
    spec["base_product"] = {"name": "Red Hat Enterprise Linux", "short": "RHEL", "version": bp_version, "type": "ga"}
    spec["compose"].update({"type": ctype, "date": date, "respin": respin})
    spec["variants"] = [CI.vspec(v) for v in variants]
    ci = CI.build(spec)
    cid = ci.compose.id
    return {"id": cid, "validate": _call(ci.compose.validate), "decoded": _call(pc.get_date_type_respin, cid)}


def eval_variant_id(rel, vrel, ctype, date, respin):
    """the compose id the library creates for a layered-product VARIANT shipped inside a compose (Variant.compose_id)"""
    import productmd.composeinfo as pc
    from mc.build import ci as CI
    spec = CI.seed_flat()
    spec["release"].update({"short": rel[0], "version": rel[1], "type": rel[2]})
    spec["compose"].update({"type": ctype, "date": date, "respin": respin})
    lp = CI.vspec("lp", "layered-product", ["x86_64"], parent_uid="Server")
    lp["release"] = {"name": "Layered", "short": vrel[0], "version": vrel[1], "type": vrel[2], "is_layered": True, "internal": False}
    spec["variants"][0]["children"] = [lp]
    ci = CI.build(spec)
    out = {"plain_variant_id_is_compose_id": ci["Server"].compose_id == ci.compose.id}
    made = _call(lambda: ci["Server-lp"].compose_id)
    out["id"] = made
    if made[0] == "ok":
        probe = pc.ComposeInfo()
        probe.compose.id, probe.compose.type, probe.compose.date, probe.compose.respin = made[1], ctype, date, respin
        out["validate"] = _call(probe.compose.validate)
        out["decoded"] = _call(pc.get_date_type_respin, made[1])
    return out


def eval_decode(cid):
    import productmd.composeinfo as pc
    return {"decoded": _call(pc.get_date_type_respin, cid)}


def legacy_doc(version, cid, ctype, with_fields, date, respin):
    compose = {"id": cid, "type": ctype}
    if with_fields:
        compose.update({"date": date, "respin": respin})
    return {"header": {"version": version},
            "payload": {"compose": compose,
                        "product": {"name": "Foo", "short": "foo", "version": "1.0", "type": "ga"},
                        "variants": {"Server": {"id": "Server", "uid": "Server", "name": "Server", "type": "variant",
                                                "arches": ["x86_64"], "paths": {}}}}}


def tree_compose_types():
    import productmd.composeinfo as pc
    return list(getattr(pc, "COMPOSE_TYPES", []))


def eval_legacy(doc):
    """loaded into a ComposeInfo that has already loaded a current-version document (its header has been consulted before)"""
    import productmd.composeinfo as pc
    from mc.build import ci as CI
    ci = pc.ComposeInfo()
    ci.loads(CI.build(CI.seed_flat()).dumps())
    ci.header.version_tuple
    ci = ci if doc.get("_reuse", True) else pc.ComposeInfo()
    ci.variants.variants.clear()
    r = _call(ci.loads, json.dumps({k: v for k, v in doc.items() if k != "_reuse"}))
    if r[0] != "ok":
        return {"load": r}
    return {"load": "ok", "triple": [ci.compose.date, ci.compose.type, ci.compose.respin], "id": ci.compose.id}


def rotate(lst, seed):
    k = seed % len(lst)
    return lst[k:] + lst[:k]


def units(tier, seed):
    us = []
    rels = [(s, v, t) for s in SHORTS for v in VERSIONS for t in ids.RELEASE_TYPES_DOC]
    if tier == "quick":
        bases = rotate(rels, seed * 7)[:3] + [("my-prod", "20160101", "updates-testing")]
        # one deviation from each base release (each of short / version / type varied alone) x full compose grid
        seen = []
        for b in bases:
            cands = [b] + [(s, b[1], b[2]) for s in SHORTS] + [(b[0], v, b[2]) for v in VERSIONS] + \
                    [(b[0], b[1], t) for t in ids.RELEASE_TYPES_DOC]
            for r in cands:
                if r not in seen:
                    seen.append(r)
        for r in seen:
            us.append(("enc", r, [None] + bases))
    else:
        bps = [None] + [(s, v, t) for s in SHORTS for v in ["7", "7.1", "20160101"] for t in ids.RELEASE_TYPES_DOC]
        for r in rels:
            us.append(("enc", r, bps))
    us.append(("dec", 1))
    us.append(("dec", 2))
    for a in "abcdefghijklmnopqrstuvwxyz":
        us.append(("dec3", a))
    us.append(("legacy", seed))
    us.append(("rhel5",))
    us.append(("variant-id",))
    return us


def _check_encode(rel, bp, ctype, date, respin, acc):
    o = eval_encode(rel, bp, ctype, date, respin)
    acc.ev()
    case = {"kind": "enc", "rel": rel, "bp": bp, "ctype": ctype, "date": date, "respin": respin}
    prefix = "%s-%s" % (rel[0], rel[1]) + ("" if rel[2] == "ga" else "-" + rel[2])
    if o["id"][0] != "ok":
        acc.violation("create", case, o, "create_compose_id failed: %s" % o["id"])
        return
    cid = o["id"][1]
    bad = False
    if not cid.startswith(prefix + "-"):
        acc.violation("prefix", case, o, "compose id %r does not start with %r" % (cid, prefix))
        bad = True
    if o["validate"][0] != "ok":
        acc.violation("own-validation", case, o, "compose id %r fails the library's own validation: %s" % (cid, o["validate"]))
        bad = True
    if o["decoded"] != ["ok", [date, ctype, respin]]:
        acc.violation("decode", case, o, "get_date_type_respin(%r) = %s, created from %s" % (cid, o["decoded"], (date, ctype, respin)))
        bad = True
    nxt = respin + 1 if respin + 1 < 10 ** 8 else 0
    if o.get("next_respin_decoded") != ["ok", [date, ctype, nxt]]:
        acc.violation("respin-bumped", case, o, "after the id %r was stored and the respin set to %d, a newly created id decodes to %s"
                      % (cid, nxt, o.get("next_respin_decoded")))
        bad = True
    acc.outcome("encode:differs" if bad else "encode:ok")
    if bp:
        acc.outcome("layered")
    if respin >= 10 or ctype != "production" or any(ch.isdigit() for ch in rel[1][7:]):
        acc.nontriv(cid)


def run_unit(unit, acc):
    kind = unit[0]
    if kind == "variant-id":
        for rel in (("f", "23", "ga"), ("my-prod", "7.1", "updates")):
            for vrel in (("sat", "6.2", "ga"), ("sat", "6.2", "eus")):
                for ctype, date, respin in itertools.product(ids.COMPOSE_TYPES_DOC, DATES[:2], (0, 3, 12)):
                    case = {"kind": "variant-id", "rel": list(rel), "vrel": list(vrel), "ctype": ctype, "date": date, "respin": respin}
                    o = eval_variant_id(rel, vrel, ctype, date, respin)
                    acc.ev()
                    acc.nontriv(json.dumps(case, sort_keys=True))
                    msg = None
                    if not o["plain_variant_id_is_compose_id"]:
                        msg = "the compose id of an ordinary variant is not the compose's id"
                    elif o["id"][0] != "ok":
                        msg = "Variant.compose_id raised %s" % o["id"][1]
                    elif not o["id"][1].startswith("%s-%s" % (vrel[0], vrel[1])):
                        msg = "id %r does not start with the variant's release short name and version" % o["id"][1]
                    elif o["validate"][0] != "ok":
                        msg = "id %r fails the library's own validation" % o["id"][1]
                    elif o["decoded"] != ["ok", [date, ctype, respin]]:
                        msg = "id %r decodes to %s, created from %s" % (o["id"][1], o["decoded"], [date, ctype, respin])
                    if msg:
                        acc.violation("variant-compose-id", case, o, "layered-product variant %s in a %s compose of %s: %s" % (vrel, ctype, rel, msg))
                    else:
                        acc.outcome("variant-id:ok")
        return
    if kind == "enc":
        _, rel, bps = unit
        for bp in bps:
            for ctype, date, respin in itertools.product(ids.COMPOSE_TYPES_DOC, DATES, RESPINS):
                _check_encode(list(rel), list(bp) if bp else None, ctype, date, respin, acc)
        acc.sample({"release": rel, "base_product": bps[-1], "compose": ["nightly", "20160622", 12],
                    "id": ids.compose_id(rel[0], rel[1], rel[2], bps[-1], "20160622", "nightly", 12)}, limit=1)
    elif kind in ("dec", "dec3"):
        if kind == "dec":
            sufs = ["".join(t) for t in itertools.product(ids.LOWER, repeat=unit[1])]
            if unit[1] == 1:
                sufs = [None, "nightly", "test"] + sufs
        else:
            sufs = [unit[1] + "".join(t) for t in itertools.product(ids.LOWER, repeat=2)]
        for suf in sufs:
            for respin in (None, 0, 2, 15):
                cid = "Foo-1.0-20170217" + ("" if suf is None else "." + suf) + ("" if respin is None else ".%d" % respin)
                o = eval_decode(cid)
                acc.ev()
                key = "" if suf is None else suf
                if key in ids.COMPOSE_SUFFIX_DECODE_DOC:
                    want = ["ok", ["20170217", ids.COMPOSE_SUFFIX_DECODE_DOC[key], respin or 0]]
                    acc.outcome("decode:known-suffix")
                    acc.nontriv(cid)
                    if respin is None:
                        acc.outcome("respin:absent")
                else:
                    want = ["exc", "ValueError"]
                    acc.outcome("decode:unknown-suffix-rejected")
                if (want[0] == "exc" and o["decoded"][0] == "ok" and o["decoded"][1][0] == "20170217" and o["decoded"][1][2] == (respin or 0)
                        and o["decoded"][1][1] not in ids.COMPOSE_TYPES_DOC and o["decoded"][1][1] in tree_compose_types()):
                    # the tree knows a compose type the property's list does not: a suffix decoding to THAT type is an
                    # extension of the table, not an unknown suffix being let through
                    acc.outcome("decode:suffix-of-a-compose-type-added-in-this-tree")
                    continue
                if o["decoded"] != want:
                    acc.violation("decoder-table", {"kind": "dec", "id": cid}, o,
                                  "get_date_type_respin(%r) = %s, documented: %s" % (cid, o["decoded"], want))
        acc.sample({"decode": "Foo-1.0-20170217.%s.2" % (sufs[-1])}, limit=1)
    elif kind == "rhel5":
        for version, bpv, variants in itertools.product(("5.11", "5", "6.1"), ("5", "5.2", "6"), (["Server"], ["Client", "Server"], ["Workstation"], [])):
            for ctype, date, respin in itertools.product(ids.COMPOSE_TYPES_DOC, DATES[:2], (0, 3, 10 ** 7)):
                o = eval_rhel5(version, bpv, variants, ctype, date, respin)
                acc.ev()
                case = {"kind": "rhel5", "version": version, "bp_version": bpv, "variants": variants, "ctype": ctype, "date": date, "respin": respin}
                ok = (o["id"].startswith("RHEL-%s-" % version) and o["validate"][0] == "ok" and o["decoded"] == ["ok", [date, ctype, respin]])
                if not ok:
                    acc.violation("rhel5", case, o, "RHEL %s on RHEL %s with variants %s: id %r, validation %s, decoded %s (created from %s)"
                                  % (version, bpv, variants, o["id"], o["validate"], o["decoded"], (date, ctype, respin)))
                else:
                    acc.outcome("encode:ok")
                acc.nontriv(("rhel5", version, bpv, tuple(variants), ctype, date, respin))
    else:
        for version in ("0.0", "0.2"):
            for ctype, date, respin, with_fields in itertools.product(ids.COMPOSE_TYPES_DOC, DATES, RESPINS, (False, True)):
                cid = ids.compose_id("foo", "1.0", "ga", None, date, ctype, respin)
                doc = legacy_doc(version, cid, ctype, with_fields, date, respin)
                o = eval_legacy(doc)
                acc.ev()
                if o["load"] != "ok":
                    acc.violation("legacy-rejected", {"kind": "legacy", "doc": doc, "want": [date, ctype, respin]}, o,
                                  "legacy %s composeinfo with id %r (date/respin only inside the id: %s) is rejected: %s"
                                  % (version, cid, not with_fields, o["load"]))
                    continue
                acc.outcome("legacy:loaded")
                acc.nontriv(("legacy", version, cid, with_fields))
                if o["triple"] != [date, ctype, respin]:
                    acc.violation("legacy", {"kind": "legacy", "doc": doc, "want": [date, ctype, respin]}, o,
                                  "legacy %s composeinfo with id %r loads as %s, id encodes %s" % (version, cid, o["triple"], [date, ctype, respin]))
        # the other spellings a legacy id may use: long suffixes, no respin at all
        spell = {"production": [""], "nightly": [".n", ".nightly"], "test": [".t", ".test"], "ci": [".ci"], "development": [".d"]}
        for version in ("0.0", "0.2"):
            for ctype in ids.COMPOSE_TYPES_DOC:
                for suffix, date, respin in itertools.product(spell.get(ctype, []), DATES[:2], (None, 0, 7)):
                    cid = "foo-1.0-%s%s%s" % (date, suffix, "" if respin is None else ".%d" % respin)
                    for tkey in ("same",):      # (the "type" key is required before 0.3, too; a key that CONTRADICTS the id is outside the quantifier)
                        doc = legacy_doc(version, cid, ctype, False, None, None)
                        if tkey == "absent":
                            del doc["payload"]["compose"]["type"]
                        elif tkey == "other":
                            doc["payload"]["compose"]["type"] = "production" if ctype != "production" else "nightly"
                        want = [date, ctype, respin or 0]
                        o = eval_legacy(doc)
                        acc.ev()
                        acc.nontriv(("legacy-spelling", version, cid, tkey))
                        if o["load"] != "ok":
                            acc.violation("legacy-rejected", {"kind": "legacy", "doc": doc, "want": want}, o,
                                          "legacy %s composeinfo with id %r (type key: %s) is rejected: %s" % (version, cid, tkey, o["load"]))
                        elif o["triple"] != want:
                            acc.violation("legacy", {"kind": "legacy", "doc": doc, "want": want}, o,
                                          "legacy %s composeinfo with id %r (type key: %s) loads as %s, id encodes %s"
                                          % (version, cid, tkey, o["triple"], want))
                        else:
                            acc.outcome("legacy:loaded-other-spelling")
        acc.sample({"legacy_doc": legacy_doc("0.2", "foo-1.0-20160622.t.3", "test", False, None, None)}, limit=1)


def replay(case):
    if case["kind"] == "variant-id":
        return eval_variant_id(case["rel"], case["vrel"], case["ctype"], case["date"], case["respin"])
    if case["kind"] == "enc":
        return eval_encode(case["rel"], case["bp"], case["ctype"], case["date"], case["respin"])
    if case["kind"] == "dec":
        return eval_decode(case["id"])
    if case["kind"] == "rhel5":
        return eval_rhel5(case["version"], case["bp_version"], case["variants"], case["ctype"], case["date"], case["respin"])
    return eval_legacy(case["doc"])


def _respin_eight_digits(case, observed):
    """An 8-digit respin is taken for the date: decode gives (str(respin), 'production', 0)."""
    if case.get("kind") == "enc":
        return (case["respin"] >= 10 ** 7 and observed["validate"][0] == "ok" and observed["id"][0] == "ok"
                and observed["decoded"] == ["ok", ["%d" % case["respin"], "production", 0]])
    if case.get("kind") == "legacy":
        return case["want"][2] >= 10 ** 7 and observed.get("triple") == ["%d" % case["want"][2], "production", 0]
    return False


KNOWN = {"respin_eight_digits": _respin_eight_digits}


def describe(tier):
    return {
        "rule": "encode->validate->decode over releases (4 shorts x 6 versions incl. 8- and 9-digit runs x 9 types; quick: "
                "one deviation from 4 base releases) x base products x 5 compose types x 4 dates x 16 respins (both ends of "
                "every digit length below 10^8); decoder table: 7 documented suffixes and every other lowercase suffix of "
                "length <= 3 (18 274 + documented), each with respin absent/0/2/15; legacy 0.0/0.2 documents whose triple "
                "exists only in the id.  Non-trivial: respin >= 10, non-production type, or a version with a long digit run.",
        "bound": "respin < 10^8; suffix length <= 3; grid as listed",
        "exhaustive": True,
        "assumptions": ["the RHEL-5 branch of create_compose_id (short RHEL, major version 5 on RHEL 5; the first variant is named in the id) is "
                        "explored on its own grid of 3 x 3 versions x 4 variant sets x the compose grid"],
    }
