"""C05 - older format versions are upgraded faithfully and idempotently.

For every state of the k-edit composeinfo / images / treeinfo universes and a set of rpms manifests, and for
every older version the library distinguishes, a down-converter (mc/models/legacy.py) produces the older
document; plus every fixture shipped under tests/.  Oracle: accepted documents expose the expected facts,
are written as current-version files, re-load to an identical object and re-dump byte-identically.
"""
import glob
import json
import os

from mc.build import ci as CI
from mc.build import im as IM
from mc.build import ti as TI
from mc.checks import c10, c12
from mc.core import explorer
from mc.core.runner import REPO, VERIF
from mc.core.util import call, diff
from mc.models import ini, legacy

ID = "C05"
LEVEL = "model_checking"
# a trailing letter is a dialect of that version: ci '...s' = a non-layered document that carries a stray base_product section
# (to be ignored); ti '0.0r/a/b' = repodata spelling / absolute roots, '0.0p' = image sections named images-<platform>-<arch>,
# '0.3v' = children listed under 'variants', not 'addons'
VERSIONS = {"ci": ["0.0", "0.2", "0.3", "0.3s", "0.4", "0.9", "1.0", "1.0s", "1.1"], "im": ["1.0", "1.1"], "rpms": ["0.3", "1.0", "1.1"],
            "ti": ["0.0", "0.0r", "0.0a", "0.0b", "0.0p", "0.3", "0.3v", "1.0", "1.1"]}
# 0.0r: pre-productmd file whose repository is spelled <dir>/repodata; 0.0a / 0.0b: image, stage2 and checksum paths spelled as
# absolute paths below the tree root "/os/" resp. "/srv/tree/x86_64/os/"
REQUIRED_OUTCOMES = (["ci:%s:upgraded" % v for v in VERSIONS["ci"]] + ["im:%s:upgraded" % v for v in VERSIONS["im"]] +
                     ["rpms:%s:upgraded" % v for v in VERSIONS["rpms"]] + ["ti:%s:upgraded" % v for v in VERSIONS["ti"]] +
                     ["fixture:treeinfo:upgraded", "fixture:images:upgraded", "fixture:composeinfo:upgraded",
                      "ci:prefix-related-variants", "im:src-arch-layout", "rpms:src-arch-layout", "ci:id-only-compose",
                      "ti:legacy-source-tree"])
CURRENT = "1.2"
TYPES = {"ci": "productmd.composeinfo", "im": "productmd.images", "rpms": "productmd.rpms", "ti": "productmd.treeinfo"}


def new(fmt):
    import productmd.composeinfo, productmd.images, productmd.rpms, productmd.treeinfo      # noqa
    return {"ci": productmd.composeinfo.ComposeInfo, "im": productmd.images.Images, "rpms": productmd.rpms.Rpms,
            "ti": productmd.treeinfo.TreeInfo}[fmt]()


def observe(fmt, obj):
    if fmt == "ci":
        return CI.observe(obj)
    if fmt == "im":
        return IM.observe(obj)
    if fmt == "ti":
        return TI.observe(obj)
    return {"rpms": json.loads(json.dumps(obj.rpms)),
            "compose": [obj.compose.id, obj.compose.type, obj.compose.date, obj.compose.respin, obj.compose.label]}


def dumps(fmt, obj):
    return TI.dumps(obj) if fmt == "ti" else obj.dumps()


def header_of(fmt, text):
    if fmt == "ti":
        h = ini.as_dict(text).get("header", {})
        return [h.get("type"), h.get("version")]
    h = json.loads(text)["header"]
    return [h.get("type"), h.get("version")]


_WARM = {}


def _warm_up(fmt):
    """Another reader of the same class loads and writes a CURRENT-format file first (in a run this happens anyway through the
    previous document's re-load; doing it explicitly makes a single replayed case see the same process state): version gates
    remembered per class or per module must not leak into the next reader."""
    if fmt not in _WARM:
        from mc.build import misc as MISC
        _WARM[fmt] = {"ci": lambda: CI.build(CI.seed_forest()).dumps(), "im": lambda: IM.build(IM.seed_v11()).dumps(),
                      "ti": lambda: TI.dumps(TI.build(TI.seed_nested())), "rpms": lambda: MISC.rpms().dumps()}[fmt]()
    other = new(fmt)
    call(other.loads, _WARM[fmt])
    call(dumps, fmt, other)


def upgrade(fmt, text, expected=None, via_json=False):
    """Load an older document, judge the conversion.  -> {"load": "rejected"} or {"load": "ok", "problems": [...]}"""
    _warm_up(fmt)
    obj = new(fmt)
    r = call(obj.loads, text)
    if r[0] != "ok":
        return {"load": "rejected", "exception": r[1]}
    problems = []
    if obj.header.version != CURRENT:
        problems.append("the loaded object still calls itself format %r: it has not been converted to the current model (it would "
                        "be treated by add() and the readers' version gates as an old-format object)" % (obj.header.version,))
    obs = observe(fmt, obj)
    if expected is not None:
        d = diff(json.loads(json.dumps(obs)) if via_json else obs, expected)
        if d:
            problems.append("converted object does not carry the document's facts (observed != expected): " + "; ".join(d))
    w = call(dumps, fmt, obj)
    if w[0] != "ok":
        return {"load": "ok", "problems": problems + ["the accepted document cannot be written back: %s" % w[1]]}
    hdr = header_of(fmt, w[1])
    if hdr != [TYPES[fmt], CURRENT]:
        problems.append("written header is %s, expected %s" % (hdr, [TYPES[fmt], CURRENT]))
    back = new(fmt)
    r = call(back.loads, w[1])
    if r[0] != "ok":
        return {"load": "ok", "problems": problems + ["the upgraded file is rejected on re-load: %s" % r[1]], "reload": "rejected"}
    d = diff(observe(fmt, back), obs)
    if d:
        problems.append("re-loading the upgraded file gives a different object: " + "; ".join(d))
    w2 = call(dumps, fmt, back)
    if w2 != w:
        problems.append("second write is not byte-identical (the conversion is not idempotent)")
    return {"load": "ok", "problems": problems}


# ---- per-format document makers -------------------------------------------------------------------

def seeds_of(fmt):
    mod = {"ci": CI, "im": IM, "ti": TI}[fmt]
    return list(mod.SEEDS) + ([("dashed-parent", CI.seed_dashed_parent)] if fmt == "ci" else [])


def spec_of(fmt, seed, edits):
    mod = {"ci": CI, "im": IM, "ti": TI}[fmt]
    spec = dict(seeds_of(fmt))[seed]()
    for e in edits:
        spec = mod.apply_spec(spec, e)
    return spec


def make_ci(spec, version):
    obj = CI.build(spec)
    doc = json.loads(obj.dumps())
    stray = version.endswith("s")
    version = version.rstrip("s")
    conv = legacy.composeinfo(doc, version)
    if conv is None:
        return None
    old, lost = conv
    if stray:
        if "base_product" in old["payload"]:
            return None                               # (only a document of a non-layered release can carry a STRAY section)
        old["payload"]["base_product"] = {"name": "Stray Base", "short": "stray", "version": "9"}
    if legacy.vt(version) < (0, 3) and spec["compose"]["id"] != "auto":
        return None                                   # the triple must be derivable from the id
    exp = CI.expected_observation(spec, obj.compose.id)
    if "release.type" in lost:
        exp["release"]["type"] = "ga"
    if "base_product.type" in lost and exp["base_product"]:
        exp["base_product"]["type"] = "ga"
    if "release.internal" in lost:
        exp["release"]["internal"] = False
    if "variant.release.type" in lost:
        for v, _, _ in CI.walk(exp["variants"]):
            if v["release"]:
                v["release"]["type"] = "ga"
    return json.dumps(old), exp


def make_im(spec, version):
    doc = json.loads(IM.build(dict(spec, header=CURRENT)).dumps())
    old, lost = legacy.images(doc, version)
    want, _ = c10.images_expected(old)
    exp = IM.expected_observation(spec)
    exp["cells"] = want
    # the documented re-filing of 'src' images may put two DIFFERENT images with one path into the same cell: C02/C05 speak of
    # cells whose images have distinct paths (the file orders a cell by path), so such a description is outside the domain
    for v in want:
        for a in want[v]:
            paths = [json.dumps(i, sort_keys=True) for i in want[v][a]]
            by_path = {}
            for i in want[v][a]:
                by_path.setdefault(i["path"] if isinstance(i, dict) else i[0], set()).add(json.dumps(i, sort_keys=True))
            if any(len(x) > 1 for x in by_path.values()):
                return None
    return json.dumps(old, sort_keys=True), exp          # ('src' tables stand between the binary arches' tables)


HACK_NAMES = ("Red Hat Enterprise Linux", "Subscription Asset Manager", "Red Hat Storage", "JBEAP", "Fedora", "CentOS", "EulerOS")


def make_ti(spec, version):
    from mc.checks.c07 import render
    if version in ("0.0", "0.0r", "0.0a", "0.0b", "0.0p"):
        return make_ti_00(spec, repodata=version == "0.0r", root={"0.0a": "/os/", "0.0b": "/srv/tree/x86_64/os/"}.get(version),
                          arch_suffix=version == "0.0p")
    text = TI.dumps(TI.build(spec))
    children_as_variants = version == "0.3v"
    version = version.rstrip("v")
    old, _ = legacy.treeinfo(ini.parse(text), version)
    if children_as_variants:
        if not any(k == "addons" for n, opts in old if n.startswith("variant-") for k, _ in opts):
            return None                               # (no variant with children: same document as plain 0.3)
        old = [(n, [("variants" if k == "addons" and n.startswith("variant-") else k, val) for k, val in opts]) for n, opts in old]
    if legacy.vt(version) <= (0, 3) and spec["tree"]["arch"] == "src":
        # a 0.3 source tree keeps its source packages/repository under the plain keys (the mapping is read off the 0.3 reader:
        # it is not documented anywhere else)
        if any(k in v["paths"] and v["paths"][k] is not None for v, _, _ in TI.walk(spec["variants"]) for k in ("packages", "repository")):
            return None
        ren = {"source_packages": "packages", "source_repository": "repository"}
        old = [(n, [(ren.get(k, k), val) for k, val in opts] if n.startswith(("variant-", "addon-")) else opts) for n, opts in old]
    return render(old), TI.expected_observation(spec)


def make_ti_00(spec, repodata=False, root=None, arch_suffix=False):
    """A pre-productmd tree: only the compatibility section and the image / stage2 / checksum sections, bare digests,
    media numbers in [general].  Only shapes that format can express: one childless top-level variant without a dash, plain
    paths of the main kinds, names without per-product hacks."""
    from mc.checks.c07 import render
    src = spec["tree"]["arch"] == "src"
    kinds = ("source_packages", "source_repository") if src else ("packages", "repository")
    if len(spec["variants"]) != 1 or spec["variants"][0]["children"] or "-" in spec["variants"][0]["uid"]:
        return None
    v = spec["variants"][0]
    paths = {k: val for k, val in v["paths"].items() if val is not None}
    if set(paths) != set(kinds):
        return None
    pk, rp = paths[kinds[0]], paths[kinds[1]]
    if not pk.strip("/.") or pk.endswith("/") or pk.startswith(".") or rp.endswith("/") or (rp != "." and (not rp.strip("/.") or rp.startswith("."))):
        return None
    name = spec["release"]["name"]
    if (name != "Fedora" and name.startswith(HACK_NAMES)) or name.strip() != name or not name:
        return None
    if spec["base_product"] or any(t not in ("md5", "sha1", "sha256") for t, _ in spec["checksums"].values()):
        return None
    if root and (spec.get("raw_checksums") or not (spec["images"] or spec["checksums"] or any(spec["stage2"].values()))):
        return None
    if arch_suffix and not any(p != spec["tree"]["arch"] for p in spec["images"]):
        return None
    text = TI.dumps(TI.build(spec))
    doc = ini.parse(text)
    out = []
    for sec, opts in doc:
        opts = [(k, val) for k, val in opts if not k.startswith(";")]
        if sec == "general":
            if repodata:
                opts = [(k, (val.rstrip("/") + "/repodata") if k == "repository" else val) for k, val in opts]
            if spec["media"]:
                opts += [("discnum", str(spec["media"]["discnum"]))]
                if spec["media"]["totaldiscs"] != spec["media"]["discnum"]:          # (a lone discnum means "n of n")
                    opts += [("totaldiscs", str(spec["media"]["totaldiscs"]))]
            out.append((sec, opts))
        elif sec.startswith("images-") or sec == "stage2":
            if arch_suffix and sec.startswith("images-") and sec[7:] != spec["tree"]["arch"]:
                sec = "%s-%s" % (sec, spec["tree"]["arch"])           # the old spelling [images-xen-x86_64]: platform xen
            out.append((sec, [(k, (root + val) if root else val) for k, val in opts]))
        elif sec == "checksums":
            out.append((sec, [((root + k) if root else k, val.split(":", 1)[1]) for k, val in opts]))
    exp = TI.expected_observation(spec)
    exp["release"]["short"] = "Fedora" if name == "Fedora" else ""      # the one per-product rule kept in the alphabet
    exp["release"]["is_layered"] = False
    exp["tree"]["platforms"] = sorted({spec["tree"]["arch"]} | set(spec["images"]))
    exp["tree"]["build_timestamp"] = int(spec["tree"]["build_timestamp"])
    exp["variants"] = [{"id": v["id"], "uid": v["uid"], "name": v["id"], "type": "variant", "paths": dict(paths), "_parent": None,
                        "children": []}]
    if v["id"] != v["uid"]:
        return None
    return render(out), exp


def make_rpms(hist, version):
    _, _, _ = c12.run_history("rpms", hist)
    import productmd.rpms
    from mc.build import misc
    obj = misc.set_compose(productmd.rpms.Rpms())
    for op in hist:
        obj.add(*op[1:])
    doc = json.loads(obj.dumps())
    old, _ = legacy.rpms(doc, version)
    if "manifest" in old["payload"]:
        want, _ = c10.rpms_expected(old)
    else:
        want = doc["payload"]["rpms"]
    c = misc.COMPOSE
    return json.dumps(old), {"rpms": want, "compose": [c["id"], c["type"], c["date"], c["respin"], c["label"]]}


def eval_doc(case):
    fmt = case["fmt"]
    if fmt == "rpms":
        made = make_rpms(case["hist"], case["version"])
    else:
        try:
            made = {"ci": make_ci, "im": make_im, "ti": make_ti}[fmt](spec_of(fmt, case["seed"], case["edits"]), case["version"])
        except (ValueError, TypeError):
            return {"made": "content refused by the current writer"}
    if made is None:
        return {"made": "inexpressible in %s" % case["version"]}
    text, exp = made
    o = upgrade(fmt, text, exp)
    o["made"] = "ok"
    return o


def fixtures():
    out = []
    for p in sorted(glob.glob(os.path.join(REPO, "tests", "treeinfo", "*"))):
        out.append(["ti", os.path.relpath(p, REPO)])
    for p in sorted(glob.glob(os.path.join(REPO, "tests", "images", "*.json"))):
        out.append(["im", os.path.relpath(p, REPO)])
    for p in sorted(glob.glob(os.path.join(REPO, "tests", "compose*", "*", "metadata", "composeinfo.json"))):
        out.append(["ci", os.path.relpath(p, REPO)])
    return out


GOLDEN = os.path.join(VERIF, "golden", "c05_fixtures.json")
_GOLDEN = {}


def golden():
    """facts each shipped fixture converts to, recorded from the repaired pinned tree by tools/gen_golden.py (keyed by path and
    by the SHA-256 of the fixture's text: a fixture that was edited or added has no expectation).  The per-product rules of the
    pre-productmd reader (RHEL 3-6 paths, RHEL 5 addons, CentOS / RHEL Server families) are documented nowhere but here."""
    if not _GOLDEN and os.path.exists(GOLDEN):
        with open(GOLDEN) as f:
            _GOLDEN.update(json.load(f))
    return _GOLDEN


def eval_fixture(fmt, rel):
    import hashlib
    with open(os.path.join(REPO, rel)) as f:
        text = f.read()
    g = golden().get(rel)
    expected = g["facts"] if g and g["sha256"] == hashlib.sha256(text.encode("utf-8")).hexdigest() else None
    o = upgrade(fmt, text, expected, via_json=True)
    o["compared_with_recorded_facts"] = expected is not None
    return o


# ---- exploration --------------------------------------------------------------------------------

class Universe(object):
    def __init__(self, fmt):
        self.fmt = fmt
        self.mod = {"ci": CI, "im": IM, "ti": TI}[fmt]

    def seeds(self):
        return [(n, f()) for n, f in seeds_of(self.fmt)]

    def edits(self, spec):
        return self.mod.edits(spec)

    def apply(self, spec, e):
        return self.mod.apply_spec(spec, e)

    def canon(self, spec):
        return self.mod.canon(spec)


def bound(tier, fmt):
    return 1 if tier == "quick" or fmt == "ci" else 2


def units(tier, seed):
    us = []
    for fmt in ("ci", "im", "ti"):
        for u in explorer.spec_units(Universe(fmt), bound(tier, fmt)):
            us.append(("univ", fmt, u, tier))
    hists = c12.source_states("rpms", 4 if tier == "quick" else 5, valid_only=True)
    for i in range(0, len(hists), 25):
        us.append(("rpms", hists[i:i + 25]))
    fx = fixtures()
    for i in range(0, len(fx), 12):
        us.append(("fixtures", fx[i:i + 12]))
    return us


def _record(case, o, acc, tagfmt, version):
    acc.ev()
    acc.trans()
    acc.trace()
    if o["made"] != "ok":
        acc.outcome("%s:%s:%s" % (tagfmt, version, "inexpressible" if "inexpressible" in o["made"] else "content-refused"))
        return False
    if o["load"] == "rejected":
        acc.outcome("%s:%s:rejected" % (tagfmt, version))           # the property speaks about accepted documents only
        acc.extra.setdefault("rejected_sample", {}).setdefault("%s:%s" % (tagfmt, version), case)
        return False
    if o["problems"]:
        acc.violation("%s:%s" % (tagfmt, version), case, o, "%s %s document (%s): %s"
                      % (tagfmt, version, json.dumps({k: v for k, v in case.items() if k not in ("fmt", "version")})[:300],
                         "; ".join(o["problems"])[:600]))
        return False
    acc.outcome("%s:%s:upgraded" % (tagfmt, version))
    return True


def run_unit(unit, acc):
    k = unit[0]
    if k == "univ":
        _, fmt, u, tier = unit

        def visit(spec, trace, parent, last):
            acc.state((fmt, Universe(fmt).canon(spec)))
            for version in VERSIONS[fmt]:
                case = {"kind": "doc", "fmt": fmt, "seed": trace[0], "edits": trace[1:], "version": version}
                o = eval_doc(case)
                ok = _record(case, o, acc, fmt, version)
                if ok:
                    acc.nontriv((fmt, version, Universe(fmt).canon(spec)))
                    if fmt == "ci" and legacy.vt(version) < (1, 0) and any(d > 1 for _, d, _ in CI.walk(spec["variants"])):
                        acc.outcome("ci:prefix-related-variants")
                    if fmt == "ci" and legacy.vt(version) < (0, 3):
                        acc.outcome("ci:id-only-compose")
                    if fmt == "im" and any(s["arch"] == "src" for s in spec["images"]):
                        acc.outcome("im:src-arch-layout")
                    if fmt == "ti" and version[:3] in ("0.0", "0.3") and spec["tree"]["arch"] == "src":
                        acc.outcome("ti:legacy-source-tree")
            if last is not None and last[0] in ("addvar", "alias", "image"):
                acc.sample({"format": fmt, "seed": trace[0], "edits": trace[1:], "versions": VERSIONS[fmt]}, limit=3)
        explorer.explore_unit(Universe(fmt), u, bound(tier, fmt), acc, visit)
    elif k == "rpms":
        for hist in unit[1]:
            if not hist:
                continue
            for version in VERSIONS["rpms"]:
                case = {"kind": "doc", "fmt": "rpms", "hist": hist, "version": version}
                o = eval_doc(case)
                acc.state(("rpms", json.dumps(hist)))
                if _record(case, o, acc, "rpms", version):
                    acc.nontriv(("rpms", version, json.dumps(hist)))
                    if version == "0.3" and any(op[6] == "source" for op in hist):
                        acc.outcome("rpms:src-arch-layout")
    else:
        for fmt, rel in unit[1]:
            o = eval_fixture(fmt, rel)
            acc.ev()
            acc.trans()
            acc.state(("fixture", rel))
            name = {"ti": "treeinfo", "im": "images", "ci": "composeinfo"}[fmt]
            case = {"kind": "fixture", "fmt": fmt, "path": rel}
            if o["load"] == "rejected":
                acc.outcome("fixture:%s:rejected" % name)
                continue
            if o["problems"]:
                acc.violation("fixture:" + name, case, o, "fixture %s: %s" % (rel, "; ".join(o["problems"])[:600]))
            else:
                acc.outcome("fixture:%s:upgraded" % name)
            acc.nontriv(("fixture", rel))
        acc.sample({"fixture": unit[1][0][1]}, limit=1)


def post(acc, tier, seed):
    """One rejected document is outside the property ('every older-format document the library ACCEPTS').  A listed format
    version of which NOT ONE generated document is accepted any more is not: the property names the formats the library
    upgrades (composeinfo 0.x/1.0/1.1, images 1.0/1.1, rpms 0.3/1.0/1.1, pre-productmd/0.3/1.0/1.1 treeinfo)."""
    for fmt in ("ci", "im", "rpms", "ti"):
        for version in VERSIONS[fmt]:
            key = "%s:%s" % (fmt, version)
            if not acc.outcomes.get(key + ":upgraded") and acc.outcomes.get(key + ":rejected") and key in acc.extra.get("rejected_sample", {}):
                case = dict(acc.extra["rejected_sample"][key], whole_version_rejected=True)
                acc.violation("format-no-longer-accepted:" + key, case, {"load": "rejected", "whole_version_rejected": True},
                              "none of the %d generated %s documents of format version %s is accepted any more (e.g. %s): the property "
                              "lists this format among those the library upgrades"
                              % (acc.outcomes[key + ":rejected"], fmt, version, json.dumps({k: v for k, v in case.items() if k in ("seed", "edits", "hist")})[:160]))


def replay(case):
    if case.get("whole_version_rejected"):
        o = eval_doc({k: v for k, v in case.items() if k != "whole_version_rejected"})
        return {"load": o.get("load"), "whole_version_rejected": True}
    if case["kind"] == "fixture":
        return eval_fixture(case["fmt"], case["path"])
    return eval_doc(case)


def _images_1_0_identity_collision(case, observed):
    """images 1.0 has no subvariant: two images that only it told apart get equal identity; the upgraded 1.2 file holds a
    pair with different checksums and is rejected on re-load."""
    if case.get("fmt") != "im" or case.get("version") != "1.0" or observed.get("reload") != "rejected":
        return False
    spec = spec_of("im", case["seed"], case["edits"])
    seen = {}
    for s in spec["images"]:
        key = json.dumps([s[k] for k in IM.IDENTITY if k != "subvariant"])
        if key in seen and seen[key] != s["checksums"]:
            return True
        seen.setdefault(key, s["checksums"])
    return False


KNOWN = {"images_1_0_identity_collision": _images_1_0_identity_collision}


def describe(tier):
    return {
        "rule": "every state within k edits of the composeinfo / images / treeinfo seeds (same universes as C01/C02/C04) and every "
                "rpms manifest built by <= %d valid adds, down-converted to every older version the library distinguishes (composeinfo "
                "%s; images %s; rpms %s; treeinfo %s) by mc/models/legacy.py: header type and release/base-product type removed "
                "(< 1.1), child lists removed so that variants are related by UID prefix only (< 1.0), release -> product section "
                "(<= 0.3), compose date/respin only inside the id (< 0.3), subvariant removed (images 1.0), source images / source RPMs "
                "under a 'src' arch, rpms 0.3 'manifest' layout, treeinfo [product] section, pre-productmd [general]-only files with bare digests and media numbers in [general]; plus every fixture under tests/treeinfo, "
                "tests/images and tests/compose*/ (pre-productmd, 0.x and 1.x files).  For each ACCEPTED document: observation == expected "
                "facts (spec with documented defaults for fields the old format lacks), written header = current version + type, re-load "
                "gives an identical observation, second write byte-identical.  Rejections and inexpressible shapes are counted per "
                "(format, version).  Non-trivial: every accepted (state, version) pair and every fixture."
                % (3 if tier == "quick" else 4, VERSIONS["ci"], VERSIONS["im"], VERSIONS["rpms"], VERSIONS["ti"]),
        "bound": "deviation bound k = 1 (thorough: 2 for images and treeinfo); rpms histories <= %d adds" % (3 if tier == "quick" else 4),
        "exhaustive": True,
        "model_binding": "every generated document is loaded by the real library; expected facts come from the spec the document "
                         "was generated from",
        "assumptions": ["shapes an older format cannot express (depth-3 forests and layered-product variants below their versions, "
                        "free-form ids below 0.3, multi-variant or nested pre-productmd trees) are kept out of the generator",
                        "the 0.3 / pre-productmd source-tree path mapping (source paths under the plain keys) is read off the readers"],
    }
