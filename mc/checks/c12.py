"""C12 - manifest builders file each entry exactly where the arguments say (history BFS, lockstep layout model).

Also provides the exploration machinery for C03 (valid adds only + write/read cycle at every state).
"""
import copy
import io
import json

from mc.build import misc
from mc.core.util import call, diff
from mc.models import layouts as M

ID = "C12"
LEVEL = "model_checking"

# ---- operation menus --------------------------------------------------------------------------------
BASH_SRC = "bash-0:4.3-1.fc23.src"
CEPH_SRC = "ceph-2:12.2.5-25.el7cp.src"
PERL_SRC = "perl-Foo-Bar2-10:1.2_3-4.src"
CELLS = [("Server", "x86_64"), ("Server", "i386"), ("Client", "x86_64")]


def rpm_valid_ops(deep=False):
    ops = []
    for v, a in CELLS:
        ops += [
            ["rpms", v, a, "Packages/b/bash-0:4.3-1.fc23.x86_64.rpm", "%s/%s/os/Packages/b/bash-4.3-1.fc23.x86_64.rpm" % (v, a),
             "ABCDEF12", "binary", BASH_SRC],
            ["rpms", v, a, "bash-debuginfo-0:4.3-1.fc23.x86_64", "%s/%s/debug/bash-debuginfo.rpm" % (v, a), None, "debug", BASH_SRC + ".rpm"],
            ["rpms", v, a, BASH_SRC, "%s/source/SRPMS/b/bash.src.rpm" % v, "abcdef12", "source", None],
            ["rpms", v, a, "ceph-2:12.2.5-25.el7cp.x86_64", "%s/%s/os/Packages/c/ceph.rpm" % (v, a), "AbCdEf12", "binary", CEPH_SRC],
            ["rpms", v, a, "x/y/perl-Foo-Bar2-10:1.2_3-4.noarch.rpm", "%s/%s/os/Packages/p/perl-Foo-Bar2.rpm" % (v, a), None, "binary", PERL_SRC],
        ]
    # the same entry again with other values (last call wins), and a nosrc source package
    ops.append(["rpms", "Server", "x86_64", "bash-0:4.3-1.fc23.x86_64", "other/path/bash.rpm", None, "binary", BASH_SRC])
    ops.append(["rpms", "Server", "x86_64", "blob-1:2-3.nosrc.rpm", "Server/source/SRPMS/blob.nosrc.rpm", None, "source", None])
    # zero-padded epochs are the same package: one canonical key
    ops.append(["rpms", "Server", "i386", "glibc-00:2.18-11.i686.rpm", "Server/i386/os/Packages/g/glibc.rpm", None, "binary", "glibc-000:2.18-11.src"])
    # an arch whose last letters are those of the '.rpm' suffix, name and srpm both given with the suffix
    ops.append(["rpms", "Client", "x86_64", "Packages/u/uboot-tools-0:2015.10-1.armhfp.rpm", "Client/x86_64/os/Packages/u/uboot.rpm", None,
                "binary", "uboot-tools-0:2015.10-1.src.rpm"])
    return ops


RPM_INVALID = [
    (["rpms", "Server", "foo", "bash-0:4.3-1.fc23.x86_64", "p/bash.rpm", None, "binary", BASH_SRC], "unknown-arch"),
    (["rpms", "Server", "src", BASH_SRC, "p/bash.src.rpm", None, "source", None], "source-arch"),
    (["rpms", "Server", "nosrc", BASH_SRC, "p/bash.src.rpm", None, "source", None], "source-arch"),
    (["rpms", "Server", "x86_64", "bash-0:4.3-1.fc23.x86_64", "p/bash.rpm", None, "bogus", BASH_SRC], "unknown-category"),
    (["rpms", "Server", "x86_64", "bash-0:4.3-1.fc23.x86_64", "/abs/bash.rpm", None, "binary", BASH_SRC], "absolute-path"),
    (["rpms", "Server", "x86_64", "bash-4.3-1.fc23.x86_64", "p/bash.rpm", None, "binary", BASH_SRC], "missing-epoch"),
    (["rpms", "Server", "x86_64", "foo:1", "p/foo.rpm", None, "binary", BASH_SRC], "unparsable-name"),
    (["rpms", "Server", "x86_64", "nodash:1.x86_64", "p/foo.rpm", None, "binary", BASH_SRC], "unparsable-name"),
    (["rpms", "Server", "x86_64", BASH_SRC, "p/bash.src.rpm", None, "source", BASH_SRC], "source-with-srpm"),
    (["rpms", "Server", "x86_64", "bash-0:4.3-1.fc23.x86_64", "p/bash.rpm", None, "binary", None], "binary-without-srpm"),
    (["rpms", "Server", "x86_64", "bash-0:4.3-1.fc23.x86_64", "p/bash.rpm", None, "source", None], "category-arch-mismatch"),
    (["rpms", "Server", "x86_64", BASH_SRC, "p/bash.src.rpm", None, "binary", BASH_SRC], "category-arch-mismatch"),
    (["rpms", "Server", "x86_64", "bash-0:4.3-1.fc23.x86_64", "p/bash.rpm", None, "binary", "bash-4.3-1.fc23.src"], "bad-srpm"),
    (["rpms", "Server", "x86_64", "bash-0:4.3-1.fc23.x86_64", "p/bash.rpm", None, "binary", "x:y"], "bad-srpm"),
]


def mod_valid_ops(deep=False):
    ops = []
    for uid in ("perl:5.26", "perl:5.26:20180101", "perl:5.26:20180101:abcdef"):
        for cat in ("binary", "debug", "source"):
            ops.append(["modules", "Server", "x86_64", uid, "module-perl", "Server/x86_64/%s/repodata/perl.yaml" % cat, cat,
                        ["perl-%s-0:5.26-1.x86_64" % cat, "perl-libs-0:5.26-1.x86_64"]])
    # the same module under another variant/arch, called with an equal (and, in the harness, the very same) RPM list
    ops.append(["modules", "Client", "i386", "perl:5.26", "module-perl", "Client/i386/os/repodata/perl.yaml", "binary",
                ["perl-binary-0:5.26-1.x86_64", "perl-libs-0:5.26-1.x86_64"]])
    ops.append(["modules", "Client", "i386", "some/dir/django:1.6:20180101:deadbeef", "module-django-1.6", "Client/i386/os/django.yaml", "binary", []])
    ops.append(["modules", "Server", "x86_64", "perl:5.26", "module-perl-rebuilt", "Server/x86_64/os/perl2.yaml", "binary", ["perl-tests-0:5.26-1.noarch"]])
    # the RPM list given as a TUPLE (accepted like a list; written ["__tuple__", ...] here so that a history stays plain JSON)
    ops.append(["modules", "Client", "i386", "perl:5.26", "module-perl", "Client/i386/os/repodata/perl.yaml", "debug",
                ["__tuple__", "perl-debuginfo-0:5.26-1.i686"]])
    return ops


MOD_INVALID = [
    (["modules", "", "x86_64", "perl:5.26", "tag", "p/perl.yaml", "binary", []], "empty-variant"),
    (["modules", "Server", "foo", "perl:5.26", "tag", "p/perl.yaml", "binary", []], "unknown-arch"),
    (["modules", "Server", "x86_64", "perl:5.26", "tag", "p/perl.yaml", "bogus", []], "unknown-category"),
    (["modules", "Server", "x86_64", 5, "tag", "p/perl.yaml", "binary", []], "non-string-uid"),
    (["modules", "Server", "x86_64", "perl", "tag", "p/perl.yaml", "binary", []], "colon-less-uid"),
    (["modules", "Server", "x86_64", "a:b:c:d:e", "tag", "p/perl.yaml", "binary", []], "malformed-uid"),
    (["modules", "Server", "x86_64", "perl:5.26", "tag", "/abs/perl.yaml", "binary", []], "absolute-path"),
    (["modules", "Server", "x86_64", "perl:5.26", "tag", "", "binary", []], "empty-path"),
    (["modules", "Server", "x86_64", "perl:5.26", "", "p/perl.yaml", "binary", []], "empty-koji-tag"),
    (["modules", "Server", "x86_64", "perl:5.26", "tag", "p/perl.yaml", "binary", "perl-0:5.26-1.x86_64"], "non-list-rpms"),
]


def extra_valid_ops(deep=False):
    return [
        ["extra", "Server", "x86_64", "Server/x86_64/os/GPL", 18092, {"sha256": "a" * 64}],
        ["extra", "Server", "x86_64", "Server/x86_64/os/EULA", 1, {"md5": "b" * 32, "sha1": "c" * 40, "sha256": "d" * 64}],
        ["extra", "Server", "x86_64", "Server/x86/README", 7, {"sha256": "e" * 64}],
        ["extra", "Client", "i386", "Client/i386/os/GPL", 18092, {"sha256": "a" * 64}],
        ["extra", "Server", "x86_64", "Server/x86_64/os/.placeholder", 0, {}],          # a zero-byte file, no checksums (yet)
    ]


EXTRA_INVALID = [
    (["extra", "", "x86_64", "Server/x86_64/os/GPL", 1, {"sha256": "a" * 64}], "empty-variant"),
    (["extra", "Server", "foo", "Server/x86_64/os/GPL", 1, {"sha256": "a" * 64}], "unknown-arch"),
    (["extra", "Server", "x86_64", "", 1, {"sha256": "a" * 64}], "empty-path"),
    (["extra", "Server", "x86_64", "/abs/GPL", 1, {"sha256": "a" * 64}], "absolute-path"),
    (["extra", "Server", "x86_64", "Server/x86_64/os/GPL", 1, [["sha256", "a" * 64]]], "non-dict-checksums"),
]
BASE_PATHS = ["Server/x86_64/os", "Server/x86_64/os/", "Server/x86_64/os//", "Other/tree", "Server/x86", "", "/Server/x86_64/os", "/",
              # a base that IS a stored path, one that continues below a stored path, one of a single component
              "Server/x86_64/os/GPL", "Server/x86_64/os/GPL/more", "Server", "Server/x86_64/os/GP"]

BUILDERS = {
    "rpms": {"valid": rpm_valid_ops, "invalid": RPM_INVALID, "model": M.rpms_add, "attr": "rpms",
             "new": lambda: __import__("productmd.rpms").rpms.Rpms()},
    "modules": {"valid": mod_valid_ops, "invalid": MOD_INVALID, "model": M.modules_add, "attr": "modules",
                "new": lambda: __import__("productmd.modules").modules.Modules()},
    "extra": {"valid": extra_valid_ops, "invalid": EXTRA_INVALID, "model": M.extra_add, "attr": "extra_files",
              "new": lambda: __import__("productmd.extra_files").extra_files.ExtraFiles()},
}
REQUIRED_OUTCOMES = (["%s:filed" % b for b in ("rpms", "modules")] + ["extra:appended", "dump_for_tree:ok"] +
                     sorted({"rpms:refused:" + r for _, r in RPM_INVALID} | {"modules:refused:" + r for _, r in MOD_INVALID} |
                            {"extra:refused:" + r for _, r in EXTRA_INVALID}))


def key_of(state):
    return json.dumps(state, sort_keys=True)


def _is_tuple_marker(a):
    return isinstance(a, list) and a[:1] == ["__tuple__"]


def m_step(builder, state, op):
    return BUILDERS[builder]["model"](state, *[a[1:] if _is_tuple_marker(a) else a for a in op[1:]])


def run_history(builder, hist, cycle=False, reload_before_last=False):
    """Replays hist on a fresh manifest object in lockstep with the model -> (model state, problems, reasons).
    reload_before_last: before the last call the object writes itself and reads its own file back INTO ITSELF (a manifest
    reader replaces its table by the document's): whatever add() remembers about the table it filled must not outlive that."""
    b = BUILDERS[builder]
    other = misc.set_compose(b["new"]())          # an unrelated manifest filled first: nothing of it may show up in `obj`
    call(other.add, *copy.deepcopy(b["valid"]()[-1][1:]))
    call(other.add, *copy.deepcopy(b["valid"]()[0][1:]))
    obj = misc.set_compose(b["new"]())
    state = {}
    reasons = []
    shared = {}                 # equal list/dict arguments of different calls are the SAME object, as in a caller's loop
    for n, op in enumerate(hist):
        if reload_before_last and n == len(hist) - 1 and n > 0:
            w = call(obj.dumps)
            if w[0] == "ok":
                r = call(obj.loads, w[1])
                if r[0] != "ok":
                    # (a manifest object that refuses to be loaded into a second time is not judged here: start over without it)
                    return run_history(builder, hist, cycle=cycle)
                if getattr(obj, b["attr"]) != state:
                    return state, ["step %d: the manifest read its own file back into itself and holds a different table" % n], reasons
        state2, want, reason = m_step(builder, state, op)
        before = copy.deepcopy(getattr(obj, b["attr"]))
        args = [tuple(a[1:]) if _is_tuple_marker(a) else
                shared.setdefault(json.dumps(a, sort_keys=True), copy.deepcopy(a)) if isinstance(a, (list, dict)) else a
                for a in op[1:]]
        r = call(obj.add, *args)
        got = "ok" if r[0] == "ok" else r[1]
        call(lambda: obj["Zmissing"])            # a look-up of a variant that is not there (KeyError or not) files nothing
        call(lambda: obj["Server"]["s390x"])
        mapping = getattr(obj, b["attr"])
        if want == "ok":
            if got != "ok":
                return state2, ["step %d %s: valid call refused with %s" % (n, op, got)], reasons
        else:
            if got == "ok":
                return state2, ["step %d %s: call accepted, the documented layout refuses it (%s)" % (n, op, reason)], reasons
            if got not in want:
                return state2, ["step %d %s: raised %s, expected ValueError/TypeError (%s)" % (n, op, got, reason)], reasons
            if mapping != before:
                return state2, ["step %d %s: refused call (%s) changed the manifest: %s" % (n, op, reason, "; ".join(diff(mapping, before)))], reasons
            # the very same call again, right away: a refusal must not depend on the call having been seen before
            r2 = call(obj.add, *args)
            if r2[0] == "ok" or r2[1] not in want or getattr(obj, b["attr"]) != before:
                return state2, ["step %d %s: refused (%s), but the same call repeated at once %s" % (
                    n, op, reason, "is accepted" if r2[0] == "ok" else
                    "raises %s" % r2[1] if r2[1] not in want else "changes the manifest")], reasons
        if mapping != state2:
            return state2, ["step %d %s: manifest differs from the reference layout: %s" % (n, op, "; ".join(diff(mapping, state2)))], reasons
        state = state2
        reasons.append(reason)
    if cycle:
        p = cycle_problems(builder, obj, state)
        if p:
            return state, p, reasons
    return state, [], reasons


def cycle_problems(builder, obj, state):
    """C03: write -> read -> compare with the reference mapping -> write again."""
    b = BUILDERS[builder]
    if builder == "extra":
        # exporting one tree first must not change what the compose-wide manifest holds
        for variant in sorted(state):
            for arch in sorted(state[variant]):
                call(obj.dump_for_tree, io.StringIO(), variant, arch, "%s/%s/os" % (variant, arch))
    w = call(obj.dumps)
    if w[0] != "ok":
        return ["a manifest built by valid adds cannot be written: %s" % w[1]]
    back = b["new"]()                                # (a new reader: nothing of the compose section is there before the load)
    r = call(back.loads, w[1])
    if r[0] != "ok":
        return ["the written manifest cannot be read back: %s" % r[1]]
    problems = []
    d = diff(getattr(back, b["attr"]), state)
    if d:
        problems.append("re-read mapping differs from what the add calls built: " + "; ".join(d))
    c = misc.COMPOSE
    if [back.compose.id, back.compose.type, back.compose.date, back.compose.respin, back.compose.label] != \
            [c["id"], c["type"], c["date"], c["respin"], c["label"]]:
        problems.append("compose section changed in the cycle")
    w2 = call(back.dumps)
    if w2 != w:
        problems.append("second write is not byte-identical")
    # a reader object that has loaded ANOTHER (labelled, final) manifest before must read the same
    # (that other manifest has a label and entries of its own, under a variant of its own and under the same ones)
    labelled = json.loads(w[1])
    labelled["payload"]["compose"].update({"label": "RC-1.0", "final": True})
    first = misc.set_compose(b["new"](), dict(misc.COMPOSE, label="RC-1.0", final=True))
    for op in (b["valid"]()[0], b["valid"]()[-1]):
        call(first.add, *copy.deepcopy(op[1:]))
        call(first.add, "Zother", *copy.deepcopy(op[2:]))
    used = b["new"]()
    call(used.loads, json.dumps(labelled))
    call(used.loads, first.dumps())
    r3 = call(used.loads, w[1])
    if r3[0] != "ok" or call(used.dumps) != w:
        problems.append("a reader that loaded a labelled manifest before does not reproduce the file (%s)" % (r3[1] if r3[0] != "ok" else "dump differs"))
    hdr = json.loads(w[1])["header"]
    if hdr.get("type") != "productmd.%s" % b["attr"] or hdr.get("version") != "1.2":
        problems.append("header is %s" % hdr)
    return problems


def tree_dumps(hist, queries):
    """dump_for_tree for every (variant, arch, base) query IN SEQUENCE on ONE object built by `hist`; the manifest must not change."""
    obj = misc.set_compose(BUILDERS["extra"]["new"]())
    for op in hist:
        call(obj.add, *copy.deepcopy(op[1:]))
    before = copy.deepcopy(obj.extra_files)
    outs = []
    for variant, arch, base in queries:
        out = io.StringIO()
        r = call(obj.dump_for_tree, out, variant, arch, base)
        outs.append({"result": r[1]} if r[0] != "ok" else {"result": "ok", "doc": json.loads(out.getvalue())})
    return {"dumps": outs, "manifest_unchanged": obj.extra_files == before}


# ---- exploration ----------------------------------------------------------------------------------

def depth(tier):
    return 3 if tier == "quick" else 5


def menu(builder, valid_only=False):
    ops = BUILDERS[builder]["valid"]()
    if not valid_only:
        ops = ops + [op for op, _ in BUILDERS[builder]["invalid"]]
    return ops


def source_states(builder, d, valid_only=False):
    ops = menu(builder, valid_only)
    seen = {key_of({}): []}
    states = {key_of({}): {}}
    level = [key_of({})]
    for _ in range(d - 1):
        nxt = []
        for k in level:
            for op in ops:
                s2, want, _ = m_step(builder, states[k], op)
                k2 = key_of(s2)
                if k2 not in seen:
                    seen[k2] = seen[k] + [op]
                    states[k2] = s2
                    nxt.append(k2)
        level = nxt
    return list(seen.values())


def units(tier, seed):
    us = [("arches", None)]
    for b in ("rpms", "modules", "extra"):
        d = depth(tier) if b != "extra" else depth(tier) + 1
        hists = source_states(b, d)
        k = seed % len(hists)
        hists = hists[k:] + hists[:k]
        chunk = 30 if tier == "quick" else 150
        for i in range(0, len(hists), chunk):
            us.append((b, hists[i:i + chunk]))
    return us


def run_unit(unit, acc):
    builder, hists = unit
    if builder == "arches":
        from mc.models import ids
        for arch in ids.BINARY_ARCHES_DOC + ["armv6hlarmv6l", "x86", "x86_64 "]:
            for b, op in (("rpms", ["rpms", "Server", arch, "bash-0:4.3-1.fc23.x86_64", "p/bash.rpm", None, "binary", BASH_SRC]),
                          ("modules", ["modules", "Server", arch, "perl:5.26", "tag", "p/perl.yaml", "binary", []]),
                          ("extra", ["extra", "Server", arch, "Server/GPL", 1, {"sha256": "a" * 64}])):
                st, problems, reasons = run_history(b, [op])
                acc.ev()
                acc.trans()
                acc.trace()
                if problems:
                    acc.violation("%s:arch" % b, {"kind": "hist", "builder": b, "hist": [op]}, {"problems": problems},
                                  "%s add under arch %r: %s" % (b, arch, problems[0][:300]))
                else:
                    acc.outcome("%s:%s" % (b, reasons[0]) if arch in ids.BINARY_ARCHES_DOC else "%s:refused:unknown-arch" % b)
        return
    ops = menu(builder)
    for hist in hists:
        src, problems, _ = run_history(builder, hist)
        acc.state((builder, key_of(src)))
        if problems:
            acc.violation("state", {"kind": "hist", "builder": builder, "hist": hist}, {"problems": problems},
                          "%s history %s: %s" % (builder, hist, problems[0]))
            continue
        for op in ops:
            full = hist + [op]
            st, problems, reasons = run_history(builder, full)
            acc.trans()
            acc.trace()
            acc.ev()
            acc.state((builder, key_of(st)))
            _, want, reason = m_step(builder, src, op)
            if problems:
                acc.violation("%s:%s" % (builder, reason), {"kind": "hist", "builder": builder, "hist": full},
                              {"problems": problems}, "%s history %s: %s" % (builder, full, problems[0][:600]))
                continue
            acc.outcome("%s:%s" % (builder, reason) if want == "ok" else "%s:refused:%s" % (builder, reason))
            if len(full) >= 2:
                _, problems, _ = run_history(builder, full, reload_before_last=True)
                acc.ev()
                if problems:
                    acc.violation("%s:%s:after-self-reload" % (builder, reason), {"kind": "hist", "builder": builder, "hist": full, "reload": True},
                                  {"problems": problems}, "%s history %s with the manifest re-read into itself before the last call: %s"
                                  % (builder, full, problems[0][:600]))
                else:
                    acc.outcome("self-reload:ok")
            if len(full) >= 2:
                acc.nontriv((builder, json.dumps(full)))
        if builder == "extra" and src:
            queries = [[variant, arch, base] for variant in sorted(src) for arch in sorted(src[variant]) for base in BASE_PATHS]
            queries = queries + queries[:2]                      # and the first two once more at the end
            o = tree_dumps(hist, queries)
            acc.ev(len(queries))
            want = {"dumps": [{"result": "ok", "doc": M.dump_for_tree(src, v, a, b)} for v, a, b in queries], "manifest_unchanged": True}
            if o != want:
                bad = [q for q, x, y in zip(queries, o["dumps"], want["dumps"]) if x != y]
                acc.violation("dump_for_tree", {"kind": "tree", "hist": hist, "queries": queries}, o,
                              "dump_for_tree after %s: %s" % (hist, ("query %s differs from the model: %s" % (bad[0], "; ".join(diff(o["dumps"][queries.index(bad[0])], want["dumps"][queries.index(bad[0])]))))
                                                              if bad else "the calls changed the manifest"))
            else:
                acc.outcome("dump_for_tree:ok")
        if len(hist) == 2:
            acc.sample({"builder": builder, "history": hist + [BUILDERS[builder]["invalid"][0][0]],
                        "expected_last": "ValueError/TypeError, manifest unchanged"}, limit=3)


def replay(case):
    if case["kind"] == "tree":
        return tree_dumps(case["hist"], case["queries"])
    _, problems, _ = run_history(case["builder"], case["hist"], cycle=case.get("cycle", False),
                                 reload_before_last=case.get("reload", False))
    return {"problems": problems}


KNOWN = {}


def describe(tier):
    return {
        "rule": "per builder a menu of valid adds (rpms: 3 cells x {binary with dir prefix and .rpm suffix, debuginfo with "
                "'.rpm' srpm, source, epoch 2 with mixed-case sigkey, noarch with dashes/digits in the name} + overwrite of an "
                "existing entry + nosrc; modules: 2-, 3-, 4-part UIDs x 3 categories, UID with directory prefix, re-add with other "
                "koji tag, the same module in another cell with the very same list object; extra files: 4 entries incl. repeated adds) and ONE invalid call per refusal condition (rpms 14, modules "
                "10, extra files 5).  All histories up to the depth, deduplicated on the model state; after every call the public "
                "mapping must equal the reference layout, an invalid call must raise ValueError/TypeError and leave a deep snapshot "
                "of the mapping unchanged; dump_for_tree for 8 base paths (exact, trailing '/', '//', unrelated, textual non-component "
                "prefix, empty, absolute, '/') for every cell, called in sequence on one object at every extra-files state (outputs equal the model's, the "
                "manifest is unchanged by the calls).  Non-trivial: a history of >= 2 calls.",
        "bound": "history depth <= %d (extra files %d)" % (depth(tier), depth(tier) + 1),
        "exhaustive": True,
        "model_binding": "the layout model is stepped in lockstep with the real object on every call of every history",
        "assumptions": ["an empty RPM path is not among the documented refusal conditions of Rpms.add and is not in the alphabet"],
    }
