"""Reference validator: one table `field kind -> (documented domain predicate, values outside the domain)`.

Transcribed from doc/*.rst and from the constraints the property statements of C06/C07 list.  Used by
C06 (corrupt one field of a valid OBJECT: dumps must raise) and C07 (corrupt one value of a valid
DOCUMENT: loads must raise, or - where the reader documents a coercion - yield an in-domain value).
No code is shared with productmd.
"""
from mc.models import ids

LABEL_NAMES = ["EA", "DevelPhaseExit", "InternalAlpha", "Alpha", "InternalSnapshot", "Beta", "Snapshot", "RC", "Update",
               "SecurityFix"]
CI_VARIANT_TYPES = ["variant", "optional", "addon", "layered-product"]
TI_VARIANT_TYPES = ["variant", "optional", "addon"]


def _is_int(v):
    return isinstance(v, int) and not isinstance(v, bool)


def _is_str(v):
    return isinstance(v, str)


def _has_8_digits(s):
    run = 0
    for ch in s:
        run = run + 1 if ch in ids.DIGIT else 0
        if run >= 8:
            return True
    return False


def _label_ok(v):
    if v is None:
        return True
    if not _is_str(v) or "-" not in v:
        return False
    name, _, ver = v.rpartition("-")
    a, dot, b = ver.partition(".")
    return name in LABEL_NAMES and dot == "." and a.isdigit() and b.isdigit() and a.isascii() and b.isascii()


def _alnum(v):
    return _is_str(v) and v != "" and all(ch in ids.LOWER or ch in ids.LOWER.upper() or ch in ids.DIGIT for ch in v)


def _md5_ok(v):
    return v is None or (_is_str(v) and len(v) == 32 and all(ch in ids.LOWER or ch in ids.DIGIT for ch in v))


def _ti_version_ok(v):
    if not _is_str(v):
        return False
    if v and v[0] in ids.DIGIT:
        return ids.version_ok(v)
    return True


def _relpath(v):
    return _is_str(v) and not v.startswith("/")


# kind -> (in-domain predicate, corrupt values).  Corrupt values are class representatives of the complement of
# the documented domain: wrong types only where a type is documented.
TABLE = {
    "compose.id":        (lambda v: _is_str(v) and v != "" and _has_8_digits(v), [None, "", "no-date-id", "x-1234567", 5]),
    "compose.type":      (lambda v: v in ids.COMPOSE_TYPES_DOC, ["bogus", "Production", "", None]),
    "compose.date":      (lambda v: _is_str(v) and len(v) == 8 and v.isdigit() and v.isascii(),
                          ["2016010", "201601011", "2016-1-1", "abcdefgh", None, 20160101,
                           "2016013", "201613", "201601 3", " 2016013", "2016013\n"]),     # (calendar parsers are lenient about padding)
    "compose.respin":    (_is_int, ["1", None, 1.5]),
    "compose.label":     (_label_ok, ["GA", "RC", "RC-1", "rc-1.0", "RC-1.0.1", "Gold-1.0", 5]),
    "compose.final":     (lambda v: isinstance(v, bool), ["yes", 1, None]),
    "release.name":      (_is_str, [None, 5]),
    "release.short":     (_is_str, [None, 5]),
    "release.version":   (ids.version_ok, ["1.", "1..1", "1.a", "", None, 1.0]),
    "release.type":      (lambda v: v in ids.RELEASE_TYPES_DOC, ["bogus", "", None, 5, "Updates", "GA"]),   # (readers fold case, writers do not)
    "release.is_layered": (lambda v: isinstance(v, bool), ["yes", 1, None]),
    "release.internal":  (lambda v: isinstance(v, bool), ["no", 1, None]),
    "variant.id":        (_alnum, ["a-b", "", "a b", None, "a_b", "S\u00e9rver", "\u0663"]),
    "variant.name":      (lambda v: _is_str(v) and v != "", ["", None, 5]),
    "variant.type":      (lambda v: v in CI_VARIANT_TYPES, ["bogus", "Variant", None]),
    "variant.arches":    (lambda v: len(v) > 0, [[]]),
    "image.path":        (lambda v: _is_str(v) and v != "", ["", None, 5]),
    "image.mtime":       (_is_int, ["1451606400", None, 1.5]),
    "image.size":        (lambda v: _is_int(v) and v != 0, [0, "1000", None, 1.5]),
    "image.volume_id":   (lambda v: v is None or (_is_str(v) and v != ""), ["", 5]),
    "image.type":        (None, ["bogus", "DVD", None, 5]),            # domain = the supported list, read from the tree
    "image.format":      (None, ["bogus", "ISO", None, 5]),
    "image.arch":        (lambda v: _is_str(v) and v != "", ["", None, 5]),
    "image.disc_number": (_is_int, ["1", None, 1.5]),
    "image.disc_count":  (_is_int, ["1", None, 1.5]),
    "image.checksums":   (lambda v: isinstance(v, dict) and len(v) > 0, [{}, None, [], "sha256:abc"]),
    "image.implant_md5": (_md5_ok, ["0" * 31, "0" * 33, "ABCDEF0123456789ABCDEF0123456789", "g-" * 16, 5]),
    "image.bootable":    (lambda v: isinstance(v, bool), ["yes", 1, None]),
    "image.subvariant":  (_is_str, [None, 5]),
    "image.unified":     (lambda v: isinstance(v, bool), ["yes", 1, None]),
    "image.additional_variants": (lambda v: isinstance(v, list), ["Server", None]),
    # treeinfo (INI: every value is text)
    "ti.release.name":   (_is_str, [None, 5]),
    "ti.release.short":  (_is_str, [None, 5]),
    "ti.release.version": (_ti_version_ok, ["1.", "1..1", "1.a", None, 5]),
    "ti.release.is_layered": (lambda v: isinstance(v, bool), ["yes", 1, None]),
    "ti.tree.arch":      (lambda v: _is_str(v) and v != "", ["", None, 5]),
    "ti.tree.build_timestamp": (lambda v: (_is_int(v) or isinstance(v, float)) and v != 0, ["1417653911", None]),
    "ti.variant.id":     (lambda v: _is_str(v) and "-" not in v, ["a-b", None, 5]),
    "ti.variant.type":   (lambda v: v in TI_VARIANT_TYPES, ["bogus", "layered-product", "Variant", None]),
    "ti.variant.name":   (_is_str, [None, 5, b"Server"]),
    "ti.variant.path":   (lambda v: v is None or _is_str(v), [5, ["Packages"], b"Packages"]),
    "ti.image.path":     (_relpath, ["/abs/images/boot.iso"]),
    "ti.stage2.path":    (_relpath, ["/abs/LiveOS/squashfs.img"]),
    "ti.checksum.path":  (_relpath, ["/abs/images/boot.iso"]),
    "ti.media.number":   (lambda v: v is None or _is_int(v), ["1", 1.5, "", 0.0, []]),
    # discinfo
    "di.timestamp":      (lambda v: isinstance(v, float) and v != 0, [None, "1417653453.0", 1417653453, 0.0]),
    "di.description":    (lambda v: _is_str(v) and v != "", ["", None, 5]),
    "di.arch":           (lambda v: _is_str(v) and v != "", ["", None, 5]),
    "di.disc_numbers":   (lambda v: isinstance(v, list) and len(v) > 0, [[], None, "ALL"]),
}


def in_domain(kind, value):
    pred = TABLE[kind][0]
    if pred is None:
        return value in (ids.IMAGE_TYPES_DOC if kind == "image.type" else ids.IMAGE_FORMATS_DOC)
    try:
        return bool(pred(value))
    except Exception:                                                  # noqa
        return False


def corrupt_values(kind):
    return list(TABLE[kind][1])
