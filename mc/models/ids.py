"""Reference models for release names/versions/types, release IDs and compose IDs.

Hand-written character-class automata and string arithmetic; no regular expressions, and no code
shared with productmd.
"""

LOWER = "abcdefghijklmnopqrstuvwxyz"
DIGIT = "0123456789"

# documented tables, transcribed from doc/ and the module docstrings (NOT imported from productmd, so
# that a reordered / shortened table in the tree is seen as a difference)
RELEASE_TYPES_DOC = ["fast", "ga", "updates", "updates-testing", "eus", "aus", "els", "tus", "e4s"]
COMPOSE_TYPES_DOC = ["test", "ci", "nightly", "production", "development"]
COMPOSE_SUFFIX_DOC = {"production": "", "nightly": ".n", "test": ".t", "ci": ".ci", "development": ".d"}
COMPOSE_SUFFIX_DECODE_DOC = {"": "production", "n": "nightly", "nightly": "nightly", "t": "test",
                             "test": "test", "ci": "ci", "d": "development"}


def short_ok(s):
    """a lowercase letter followed by lowercase alphanumerics in non-empty dash-separated segments.

    DFA states: 0 start, 1 inside a segment (accepting), 2 just after a dash.
    """
    if not isinstance(s, str):
        return False
    state = 0
    for ch in s:
        if state == 0:
            if ch in LOWER:
                state = 1
            else:
                return False
        elif state == 1:
            if ch in LOWER or ch in DIGIT:
                state = 1
            elif ch == "-":
                state = 2
            else:
                return False
        else:
            if ch in LOWER or ch in DIGIT:
                state = 1
            else:
                return False
    return state == 1


type_ok = short_ok


def version_ok(s):
    """dot-separated decimal integers, or any non-empty (single-line) string not starting with a digit."""
    if not isinstance(s, str) or s == "":
        return False
    if s[0] not in DIGIT:
        return "\n" not in s
    state = 1                                   # 1 inside digits (accepting), 2 just after a dot
    for ch in s[1:]:
        if ch in DIGIT:
            state = 1
        elif ch == "." and state == 1:
            state = 2
        else:
            return False
    return state == 1


def release_id(short, version, rtype, bp=None):
    out = "%s-%s" % (short, version)
    if rtype != "ga":
        out += "-" + rtype
    if bp:
        out += "@" + release_id(*bp)
    return out


def compose_id(short, version, rtype, bp, date, ctype, respin):
    """bp = None or (short, version, type)."""
    out = "%s-%s" % (short, version)
    if rtype.lower() != "ga":
        out += "-" + rtype.lower()
    if bp:
        out += "-%s-%s" % (bp[0], bp[1])
        if bp[2] and bp[2].lower() != "ga":
            out += "-" + bp[2].lower()
    out += "-%s%s.%d" % (date, COMPOSE_SUFFIX_DOC[ctype], respin)
    return out
