"""Reference models for release names/versions/types, release IDs and compose IDs.

Hand-written character-class automata and string arithmetic; no regular expressions, and no code
shared with productmd.
"""

LOWER = "abcdefghijklmnopqrstuvwxyz"
DIGIT = "0123456789"

# documented tables, transcribed from doc/ and the module docstrings (NOT imported from productmd, so
# that a reordered / shortened table in the tree is seen as a difference)
RELEASE_TYPES_DOC = ["fast", "ga", "updates", "updates-testing", "eus", "aus", "els", "tus", "e4s"]
COMPOSE_TYPES_DOC = ["test", "ci", "nightly", "production", "development"]
COMPOSE_SUFFIX_DOC = {"production": "", "nightly": ".n", "test": ".t", "ci": ".ci", "development": ".d"}
COMPOSE_SUFFIX_DECODE_DOC = {"": "production", "n": "nightly", "nightly": "nightly", "t": "test",
                             "test": "test", "ci": "ci", "d": "development"}


def short_ok(s):
    """a lowercase letter followed by lowercase alphanumerics in non-empty dash-separated segments.

    DFA states: 0 start, 1 inside a segment (accepting), 2 just after a dash.
    """
    if not isinstance(s, str):
        return False
    state = 0
    for ch in s:
        if state == 0:
            if ch in LOWER:
                state = 1
            else:
                return False
        elif state == 1:
            if ch in LOWER or ch in DIGIT:
                state = 1
            elif ch == "-":
                state = 2
            else:
                return False
        else:
            if ch in LOWER or ch in DIGIT:
                state = 1
            else:
                return False
    return state == 1


type_ok = short_ok


def version_ok(s):
    """dot-separated decimal integers, or any non-empty (single-line) string not starting with a digit."""
    if not isinstance(s, str) or s == "":
        return False
    if s[0] not in DIGIT:
        return "\n" not in s
    state = 1                                   # 1 inside digits (accepting), 2 just after a dot
    for ch in s[1:]:
        if ch in DIGIT:
            state = 1
        elif ch == "." and state == 1:
            state = 2
        else:
            return False
    return state == 1


def release_id(short, version, rtype, bp=None):
    out = "%s-%s" % (short, version)
    if rtype != "ga":
        out += "-" + rtype
    if bp:
        out += "@" + release_id(*bp)
    return out


def compose_id(short, version, rtype, bp, date, ctype, respin):
    """bp = None or (short, version, type)."""
    out = "%s-%s" % (short, version)
    if rtype.lower() != "ga":
        out += "-" + rtype.lower()
    if bp:
        out += "-%s-%s" % (bp[0], bp[1])
        if bp[2] and bp[2].lower() != "ga":
            out += "-" + bp[2].lower()
    out += "-%s%s.%d" % (date, COMPOSE_SUFFIX_DOC[ctype], respin)
    return out


# documented architecture table (productmd.common.RPM_ARCHES as shipped; transcribed so that a damaged table is seen)
RPM_ARCHES_DOC = ['aarch64', 'alpha', 'alphaev4', 'alphaev45', 'alphaev5', 'alphaev56', 'alphaev6', 'alphaev67', 'alphaev68', 'alphaev7',
                  'alphapca56', 'amd64', 'arm64', 'armhfp', 'armv5tejl', 'armv5tel', 'armv5tl', 'armv6hl', 'armv6l', 'armv7hl', 'armv7hnl',
                  'armv7l', 'armv8hl', 'armv8l', 'athlon', 'geode', 'i386', 'i486', 'i586', 'i686', 'ia32e', 'ia64', 'loongarch64', 'mips',
                  'mips64', 'mips64el', 'mipsel', 'ppc', 'ppc64', 'ppc64iseries', 'ppc64le', 'ppc64p7', 'ppc64pseries', 'riscv128', 'riscv32',
                  'riscv64', 's390', 's390x', 'sh3', 'sh4', 'sh4a', 'sparc', 'sparc64', 'sparc64v', 'sparcv8', 'sparcv9', 'sparcv9v', 'x86_64',
                  'src', 'nosrc', 'noarch']
BINARY_ARCHES_DOC = [a for a in RPM_ARCHES_DOC if a not in ("src", "nosrc")]
IMAGE_TYPES_DOC = ['appx', 'boot', 'cd', 'docker', 'dvd', 'dvd-debuginfo', 'dvd-ostree', 'dvd-ostree-osbuild', 'ec2', 'fex', 'kvm', 'live',
                   'live-osbuild', 'liveimg-squashfs', 'netinst', 'ociarchive', 'p2v', 'qcow', 'qcow2', 'raw', 'raw-xz', 'rescue', 'rhevm-ova',
                   'tar-gz', 'vagrant-hyperv', 'vagrant-libvirt', 'vagrant-virtualbox', 'vagrant-vmware-fusion', 'vdi', 'vhd-compressed',
                   'vmdk', 'vpc', 'vsphere-ova']
IMAGE_FORMATS_DOC = ['appx', 'erofs', 'erofs.gz', 'erofs.xz', 'iso', 'liveimg.squashfs', 'ociarchive', 'qcow', 'qcow2', 'raw', 'raw.xz',
                     'rhevm.ova', 'squashfs', 'squashfs.gz', 'squashfs.xz', 'tar.gz', 'tar.xz', 'vagrant-hyperv.box', 'vagrant-libvirt.box',
                     'vagrant-virtualbox.box', 'vagrant-vmware-fusion.box', 'vdi', 'vhd', 'vhd.gz', 'vhd.xz', 'vmdk', 'vsphere.ova']
