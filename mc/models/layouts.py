"""Reference models of the rpms / modules / extra-files manifest layouts and their add operations.

Plain dicts and lists, written from the format documentation and the property text; the only code
shared with anything else is the regex-free NEVRA / module-UID splitter of mc/models/nvra.py.
A model step returns (new_state, outcome) with outcome "ok" or the tuple of acceptable exception names.
"""
import copy

from mc.models import nvra   # noqa

from mc.models import ids

BINARY_ARCHES = set(ids.BINARY_ARCHES_DOC)
SOURCE_ARCHES = {"src", "nosrc"}
CATEGORIES = {"binary", "debug", "source"}
REFUSE = ("ValueError", "TypeError")


# ---- rpms -----------------------------------------------------------------------------------------

def rpms_add(state, variant, arch, nevra, path, sigkey, category, srpm_nevra=None):
    """-> (state', 'ok' | REFUSE, reason)"""
    def no(reason):
        return state, REFUSE, reason
    if arch in SOURCE_ARCHES:
        return no("source-arch")
    if arch not in BINARY_ARCHES:
        return no("unknown-arch")
    if category not in CATEGORIES:
        return no("unknown-category")
    if path.startswith("/"):
        return no("absolute-path")
    if ":" not in nevra:
        return no("missing-epoch")
    parts = nvra.split_nevra(nevra)
    if parts is None:
        return no("unparsable-name")
    if category == "source" and srpm_nevra is not None:
        return no("source-with-srpm")
    if category != "source" and srpm_nevra is None:
        return no("binary-without-srpm")
    if (category == "source") != (parts["arch"] in SOURCE_ARCHES):
        return no("category-arch-mismatch")
    key = nvra.canonical(parts)
    if srpm_nevra:
        if ":" not in srpm_nevra:
            return no("bad-srpm")
        sparts = nvra.split_nevra(srpm_nevra)
        if sparts is None:
            return no("bad-srpm")
        skey = nvra.canonical(sparts)
    else:
        skey = key
    new = copy.deepcopy(state)
    new.setdefault(variant, {}).setdefault(arch, {}).setdefault(skey, {})[key] = {
        "sigkey": sigkey.lower() if sigkey is not None else None, "path": path, "category": category}
    return new, "ok", "filed"


# ---- modules --------------------------------------------------------------------------------------

def modules_add(state, variant, arch, uid, koji_tag, modulemd_path, category, rpms):
    def no(reason):
        return state, REFUSE, reason
    if not variant:
        return no("empty-variant")
    if arch not in BINARY_ARCHES and arch not in SOURCE_ARCHES:
        return no("unknown-arch")
    if category not in CATEGORIES:
        return no("unknown-category")
    if not isinstance(uid, str):
        return no("non-string-uid")
    if ":" not in uid:
        return no("colon-less-uid")
    d = nvra.split_module_uid(uid)
    if d is None:
        return no("malformed-uid")
    if modulemd_path.startswith("/"):
        return no("absolute-path")
    if not modulemd_path:
        return no("empty-path")
    if not koji_tag:
        return no("empty-koji-tag")
    if not isinstance(rpms, (list, tuple)):
        return no("non-list-rpms")
    cuid = nvra.canonical_uid(d)
    new = copy.deepcopy(state)
    entry = new.setdefault(variant, {}).setdefault(arch, {}).setdefault(cuid, {})
    entry["metadata"] = {"uid": cuid, "name": d["module_name"], "stream": d["stream"], "version": d["version"],
                         "context": d["context"], "koji_tag": koji_tag}
    entry.setdefault("modulemd_path", {})[category] = modulemd_path
    entry.setdefault("rpms", []).extend(list(rpms))
    return new, "ok", "filed"


# ---- extra files ----------------------------------------------------------------------------------

def extra_add(state, variant, arch, path, size, checksums):
    def no(reason):
        return state, REFUSE, reason
    if not variant:
        return no("empty-variant")
    if arch not in BINARY_ARCHES and arch not in SOURCE_ARCHES:
        return no("unknown-arch")
    if not path:
        return no("empty-path")
    if path.startswith("/"):
        return no("absolute-path")
    if not isinstance(checksums, dict):
        return no("non-dict-checksums")
    new = copy.deepcopy(state)
    new.setdefault(variant, {}).setdefault(arch, []).append({"file": path, "size": size, "checksums": copy.deepcopy(checksums)})
    return new, "ok", "appended"


def relative_to(path, base):
    """Strip `base` from `path` only on a path-component boundary."""
    root = base.rstrip("/") + "/"
    if path.startswith(root):
        return path[len(root):]
    return path


def dump_for_tree(state, variant, arch, base):
    return {"header": {"version": "1.0"},
            "data": [{"file": relative_to(i["file"], base), "size": i["size"], "checksums": i["checksums"]}
                     for i in state[variant][arch]]}
