"""Independent reader for the INI dialect productmd writes (no ConfigParser involved).

Lines: '[section]', 'key = value' (key up to the first '=' or ':'), comment lines starting with '#' or ';',
blank lines.  Returns an ordered list of (section, [(key, value)]) so that ordering can be judged too.
"""


def parse(text):
    sections = []
    current = None
    for raw in text.split("\n"):
        line = raw.rstrip("\r")
        if not line.strip():
            continue
        if line[0] in "#;":
            continue
        if line[0] in " \t" and current is not None and current[1]:
            # continuation line of a multi-line value
            k, v = current[1][-1]
            current[1][-1] = (k, v + "\n" + line.strip())
            continue
        if line.startswith("[") and line.rstrip().endswith("]"):
            current = (line.strip()[1:-1], [])
            sections.append(current)
            continue
        if current is None:
            raise ValueError("option outside a section: %r" % line)
        cut = min([i for i in (line.find("="), line.find(":")) if i >= 0] or [-1])
        if cut < 0:
            current[1].append((line.strip(), None))
        else:
            current[1].append((line[:cut].strip(), line[cut + 1:].strip()))
    return sections


def as_dict(text):
    out = {}
    for name, opts in parse(text):
        if name in out:
            raise ValueError("duplicate section %s" % name)
        d = {}
        for k, v in opts:
            if k in d:
                raise ValueError("duplicate option %s in %s" % (k, name))
            d[k] = v
        out[name] = d
    return out
