"""Down-converters: a current-version document -> the same content in an older format version.

Written from doc/*-1.0.rst, doc/*-1.1.rst (their "Changes" sections) and the property text of C05:
fields that did not exist yet are removed, legacy section names are used, compose date/type/respin
are derivable only from the id, variants are related only by UID prefix, source images and source
RPMs are filed under a 'src' architecture.  Each converter also says which facts the older format
cannot carry (they come back as the documented defaults).
"""
import copy


def vt(version):
    """'0.3' -> (0, 3); a trailing letter names a dialect of that version ('0.3v', '1.0s') and is ignored here"""
    return tuple(int(x) for x in version.rstrip("abcdefghijklmnopqrstuvwxyz").split("."))


# ---- composeinfo ----------------------------------------------------------------------------------

def composeinfo(doc, version):
    """doc: parsed current-version composeinfo.  Returns (old doc, set of lost facts) or None if the older
    format cannot express the content."""
    v = vt(version)
    d = copy.deepcopy(doc)
    lost = set()
    d["header"]["version"] = version
    pay = d["payload"]
    if v < (1, 1):
        d["header"].pop("type", None)
        pay["release"].pop("type", None)
        lost.add("release.type")
        if "base_product" in pay:
            pay["base_product"].pop("type", None)
            lost.add("base_product.type")
        for var in pay["variants"].values():
            if "release" in var:
                var["release"].pop("type", None)
                lost.add("variant.release.type")
    if v < (1, 0):
        # no explicit parent/child references: variants are related by UID prefix only
        depth3 = any(uid.count("-") >= 2 and uid.rsplit("-", 1)[0] in pay["variants"] and
                     uid.rsplit("-", 1)[0].rsplit("-", 1)[0] in pay["variants"] for uid in pay["variants"])
        if depth3:
            return None
        for var in pay["variants"].values():
            var.pop("variants", None)
    if v <= (0, 3):
        if any("release" in var for var in pay["variants"].values()):
            return None                                  # layered-product variants carry a 1.0-style release section
        pay["product"] = pay.pop("release")
        pay["product"].pop("internal", None)
        lost.add("release.internal")
    if v < (0, 3):
        pay["compose"].pop("date", None)
        pay["compose"].pop("respin", None)
    return d, lost


# ---- images ---------------------------------------------------------------------------------------

def images(doc, version):
    v = vt(version)
    d = copy.deepcopy(doc)
    lost = set()
    d["header"]["version"] = version
    if v < (1, 1):
        d["header"].pop("type", None)
        for var in d["payload"]["images"].values():
            for lst in var.values():
                for img in lst:
                    img.pop("subvariant", None)
        lost.add("image.subvariant")
    # source images are filed under a 'src' architecture (once per variant)
    for variant, arches in d["payload"]["images"].items():
        src = {}
        for arch in list(arches):
            keep = []
            for img in arches[arch]:
                if img["arch"] == "src":
                    src[img["path"]] = img
                else:
                    keep.append(img)
            arches[arch] = keep
        if src:
            arches["src"] = [src[p] for p in sorted(src)]
    return d, lost


# ---- rpms -----------------------------------------------------------------------------------------

def rpms(doc, version):
    v = vt(version)
    d = copy.deepcopy(doc)
    d["header"]["version"] = version
    if v < (1, 1):
        d["header"].pop("type", None)
    if v <= (0, 3):
        man = {}
        for variant, arches in d["payload"]["rpms"].items():
            for arch, srpms in arches.items():
                for srpm, rpms_ in srpms.items():
                    for nevra, info in rpms_.items():
                        if info["category"] == "source":
                            man.setdefault(variant, {}).setdefault("src", {})[nevra] = {"path": info["path"], "sigkey": info["sigkey"]}
                        else:
                            man.setdefault(variant, {}).setdefault(arch, {}).setdefault(srpm, {})[nevra] = {
                                "path": info["path"], "sigkey": info["sigkey"],
                                "type": "package" if info["category"] == "binary" else info["category"]}
        d["payload"]["manifest"] = man
        del d["payload"]["rpms"]
    return d, set()


# ---- treeinfo (sections = [(name, [(key, value)])] from mc.models.ini.parse) ------------------------

def treeinfo(sections, version):
    v = vt(version)
    out = []
    for name, opts in sections:
        opts = [(k, val) for k, val in opts if not k.startswith(";")]
        if name == "header":
            opts = [(k, version if k == "version" else val) for k, val in opts if not (k == "type" and v < (1, 1))]
        if name == "release" and v <= (0, 3):
            name = "product"
        out.append((name, opts))
    return out, set()
