"""Regex-free reference splitter for RPM N-[E:]V-R.A strings and module UIDs."""


def split_nevra(s):
    """Return dict(name, epoch:int, version, release, arch) or None if the string has no such shape."""
    if not isinstance(s, str):
        return None
    if s.endswith(".rpm"):
        s = s[:-4]
    s = s.rpartition("/")[2]
    head, dot, arch = s.rpartition(".")
    if not dot:
        return None
    head, dash, release = head.rpartition("-")
    if not dash:
        return None
    name, dash, version = head.rpartition("-")
    if not dash:
        return None
    epoch = 0
    ep, colon, rest = version.partition(":")
    if colon and ep.isdigit() and ep.isascii():
        epoch, version = int(ep), rest
    return {"name": name, "epoch": epoch, "version": version, "release": release, "arch": arch}


def canonical(parts):
    return "%(name)s-%(epoch)s:%(version)s-%(release)s.%(arch)s" % parts


def split_module_uid(uid):
    """NAME:STREAM[:VERSION[:CONTEXT]] -> dict or None."""
    if not isinstance(uid, str):
        return None
    parts = uid.rpartition("/")[2].split(":")
    if not 2 <= len(parts) <= 4 or any(p == "" for p in parts):
        return None
    parts = parts + [""] * (4 - len(parts))
    return {"module_name": parts[0], "stream": parts[1], "version": parts[2], "context": parts[3]}


def canonical_uid(d):
    out = "%s:%s" % (d["module_name"], d["stream"])
    if d["version"]:
        out += ":" + d["version"]
    if d["context"]:
        out += ":" + d["context"]
    return out
