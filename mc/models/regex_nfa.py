"""Regex front end for C19: parse tree -> (a) epsilon-NFA with ambiguity analysis on the product automaton,
(b) step-counting backtracking matcher that follows sre's greedy order.

Only the constructs productmd uses (and plausible relatives) are supported: literals, classes, '.', alternation,
groups, * + ? {m,n} (greedy and lazy), anchors, fixed-width negative/positive look-behind/ahead of single
classes.  Anything else raises Unsupported and is handled dynamically only.
"""
import re
import sys

try:
    import re._parser as sre_parse
    import re._constants as C
except ImportError:                                    # Python < 3.11
    import sre_parse
    import sre_constants as C

MAXREPEAT = C.MAXREPEAT
REP_ALPHABET = [chr(c) for c in range(32, 127)] + ["\n", "\t", "é", "٣"]     # printable ASCII + newline, tab, é, arabic digit 3


class Unsupported(Exception):
    pass


def parse(pattern, flags=0):
    if isinstance(pattern, bytes):
        raise Unsupported("bytes pattern")
    return sre_parse.parse(pattern, flags)


# ---- character predicates --------------------------------------------------------------------------

def _category(cat, ch):
    name = str(cat)
    neg = "NOT_" in name
    if "DIGIT" in name:
        r = ch.isdecimal()
    elif "SPACE" in name:
        r = ch.isspace()
    elif "WORD" in name:
        r = ch.isalnum() or ch == "_"
    else:
        raise Unsupported(name)
    return r != neg


def char_pred(op, av, flags=0):
    """predicate for one character-consuming node"""
    icase = bool(flags & re.IGNORECASE)
    if op == C.LITERAL:
        return (lambda ch: ch.lower() == chr(av).lower()) if icase else (lambda ch: ord(ch) == av)
    if op == C.NOT_LITERAL:
        return lambda ch: ord(ch) != av
    if op == C.ANY:
        return (lambda ch: True) if flags & re.DOTALL else (lambda ch: ch != "\n")
    if op == C.IN:
        items = list(av)
        negate = bool(items and items[0][0] == C.NEGATE)
        if negate:
            items = items[1:]

        def pred(ch):
            hit = False
            for iop, iav in items:
                if iop == C.LITERAL:
                    hit = ord(ch) == iav
                elif iop == C.RANGE:
                    hit = iav[0] <= ord(ch) <= iav[1]
                elif iop == C.CATEGORY:
                    hit = _category(iav, ch)
                else:
                    raise Unsupported(str(iop))
                if hit:
                    break
            return hit != negate
        return pred
    raise Unsupported(str(op))


CONSUMING = (C.LITERAL, C.NOT_LITERAL, C.ANY, C.IN)


# ---- (a) epsilon-NFA ---------------------------------------------------------------------------------

class NFA(object):
    """states 0..n-1; eps[s] = list of successor states (ordered); pos = list of (src, dst, predicate, label)"""

    def __init__(self):
        self.n = 0
        self.eps = {}
        self.pos = []
        self.notes = []

    def new(self):
        self.n += 1
        self.eps[self.n - 1] = []
        return self.n - 1

    def e(self, a, b):
        self.eps[a].append(b)


def _label(op, av):
    if op == C.LITERAL:
        return repr(chr(av))
    if op == C.ANY:
        return "."
    if op == C.NOT_LITERAL:
        return "[^%s]" % chr(av)
    out = []
    for iop, iav in av:
        if iop == C.NEGATE:
            out.append("^")
        elif iop == C.LITERAL:
            out.append(chr(iav))
        elif iop == C.RANGE:
            out.append("%s-%s" % (chr(iav[0]), chr(iav[1])))
        else:
            out.append("\\" + str(iav).split("_")[-1][0].lower())
    return "[%s]" % "".join(out)


def build_nfa(tree, flags=0, unroll_cap=3):
    nfa = NFA()

    def seq(items, start):
        cur = start
        for op, av in items:
            cur = node(op, av, cur)
        return cur

    def node(op, av, start):
        if op in CONSUMING:
            end = nfa.new()
            nfa.pos.append((start, end, char_pred(op, av, flags), _label(op, av)))
            return end
        if op == C.SUBPATTERN:
            return seq(av[-1], start)
        if op == C.BRANCH:
            end = nfa.new()
            for alt in av[1]:
                s = nfa.new()
                nfa.e(start, s)
                nfa.e(seq(alt, s), end)
            return end
        if op in (C.MAX_REPEAT, C.MIN_REPEAT) or str(op) == "POSSESSIVE_REPEAT":
            lo, hi, body = av
            cur = start
            for _ in range(min(lo, unroll_cap)):            # mandatory copies (capped: a cap only removes bounded repetition)
                s = nfa.new()
                nfa.e(cur, s)
                cur = seq(body, s)
            if lo > unroll_cap:
                nfa.notes.append("{%d,..} unrolled %d times only" % (lo, unroll_cap))
            end = nfa.new()
            if hi == MAXREPEAT:
                loop = nfa.new()
                nfa.e(cur, loop)
                s = nfa.new()
                nfa.e(loop, s)                              # greedy: try the body first
                nfa.e(seq(body, s), loop)
                nfa.e(loop, end)
            else:
                extra = min(hi - lo, unroll_cap)
                nfa.e(cur, end) if extra == 0 else None
                for k in range(extra):
                    s = nfa.new()
                    nfa.e(cur, s)
                    nfa.e(cur, end)
                    cur = seq(body, s)
                if extra:
                    nfa.e(cur, end)
            return end
        if op == C.AT:
            return start                                    # anchors are epsilon for the ambiguity analysis (over-approximation)
        if op in (C.ASSERT, C.ASSERT_NOT):
            nfa.notes.append("look-around treated as epsilon (over-approximation)")
            return start
        if str(op) == "ATOMIC_GROUP":
            return seq(av, start)
        raise Unsupported(str(op))

    start = nfa.new()
    end = seq(list(tree), start)
    nfa.start, nfa.accept = start, end
    return nfa


def eps_paths(nfa, cap=2):
    """count[s][t] = number of epsilon paths s ->* t (each state visited at most twice per path, so that re-entering a loop for
    another iteration counts as a different route), capped at `cap`."""
    count = {}
    for s in range(nfa.n):
        c = {}
        budget = [200000]

        def dfs(u, visits):
            budget[0] -= 1
            if budget[0] < 0:
                return
            c[u] = min(cap, c.get(u, 0) + 1)
            for v in nfa.eps[u]:
                if visits.get(v, 0) < 2:
                    visits[v] = visits.get(v, 0) + 1
                    dfs(v, visits)
                    visits[v] -= 1
        dfs(s, {s: 1})
        count[s] = c
    return count


def analyse(nfa):
    """Explicit-state exploration of the position graph G and of the product G x G.

    Returns dict(eda=bool, witness=..., positions, pairs_explored, edges, degree_lower_bound)."""
    sys.setrecursionlimit(max(sys.getrecursionlimit(), 20000))
    P = nfa.pos
    n = len(P)
    cnt = eps_paths(nfa)
    masks = []
    for (_, _, pred, _) in P:
        m = 0
        for i, ch in enumerate(REP_ALPHABET):
            if pred(ch):
                m |= 1 << i
        masks.append(m)
    # follow[p][q] = number (capped at 2) of epsilon routes from the end of p to the start of q
    follow = [[cnt[P[p][1]].get(P[q][0], 0) for q in range(n)] for p in range(n)]
    first = [cnt[nfa.start].get(P[q][0], 0) for q in range(n)]
    # reachability in G
    succ = [[q for q in range(n) if follow[p][q]] for p in range(n)]

    def reach_from(srcs):
        seen = set(srcs)
        todo = list(srcs)
        while todo:
            u = todo.pop()
            for v in succ[u]:
                if v not in seen:
                    seen.add(v)
                    todo.append(v)
        return seen
    reachable = reach_from([q for q in range(n) if first[q]])
    on_cycle = {p for p in reachable if p in reach_from(succ[p])}
    result = {"positions": n, "nfa_states": nfa.n, "eda": False, "witness": None, "pairs_explored": 0, "edges": 0,
              "notes": list(nfa.notes)}
    # (1) an edge with two epsilon routes that lies on a cycle: two distinct paths over the same word
    for p in sorted(on_cycle):
        for q in succ[p]:
            if follow[p][q] >= 2 and masks[q] and p in reach_from([q]):
                result.update(eda=True, witness={"kind": "two-epsilon-routes", "from": P[p][3], "to": P[q][3],
                                                 "cycle_through": [P[x][3] for x in (p, q)]})
                result["pump"] = _pump_word(P, masks, succ, q, p) or ""
                result["prefix"] = _word_to(P, masks, succ, first, p)
                return result
    # (2) product automaton: (p, p) ->* (q1, q2), q1 != q2, ->* (p, p) reading the same word
    pair_succ = {}

    def psucc(a, b):
        key = (a, b)
        if key not in pair_succ:
            out = []
            for x in succ[a]:
                for y in succ[b]:
                    if masks[x] & masks[y]:
                        out.append((x, y))
            pair_succ[key] = out
            result["edges"] += len(out)
        return pair_succ[key]
    for p in sorted(on_cycle):
        seen = {(p, p)}
        todo = [(p, p)]
        parents = {}
        while todo:
            u = todo.pop()
            for v in psucc(*u):
                if v not in seen:
                    seen.add(v)
                    parents[v] = u
                    todo.append(v)
        result["pairs_explored"] += len(seen)
        for (a, b) in seen:
            if a != b:
                # can (a, b) come back to (p, p)?
                back = {(a, b)}
                todo = [(a, b)]
                found = False
                while todo and not found:
                    u = todo.pop()
                    for v in psucc(*u):
                        if v == (p, p):
                            found = True
                            break
                        if v not in back:
                            back.add(v)
                            todo.append(v)
                if found:
                    result.update(eda=True, witness={"kind": "two-position-paths", "state": P[p][3], "diverges_to": [P[a][3], P[b][3]]})
                    result["pump"] = _pump_word(P, masks, succ, p, p) or ""
                    result["prefix"] = _word_to(P, masks, succ, first, p)
                    return result
    # polynomial degree (lower bound): longest chain of distinct cyclic components p1 -> p2 -> ... with overlapping loops
    result["degree_lower_bound"] = _ida_chain(P, masks, succ, on_cycle, reach_from)
    return result


def _char_of(mask):
    for i, ch in enumerate(REP_ALPHABET):
        if mask >> i & 1 and ch.isalnum():
            return ch
    for i, ch in enumerate(REP_ALPHABET):
        if mask >> i & 1:
            return ch
    return None


def _word_to(P, masks, succ, first, target):
    """a word leading from the start to position `target` (inclusive)"""
    n = len(P)
    prev = {}
    todo = [q for q in range(n) if first[q]]
    for q in todo:
        prev[q] = None
    while todo:
        u = todo.pop(0)
        if u == target:
            break
        for v in succ[u]:
            if v not in prev:
                prev[v] = u
                todo.append(v)
    if target not in prev:
        return ""
    path = []
    u = target
    while u is not None:
        path.append(u)
        u = prev[u]
    return "".join(_char_of(masks[x]) or "?" for x in reversed(path))


def _pump_word(P, masks, succ, src, dst):
    """a word read along a shortest path src -> ... -> dst (at least one step), as the characters of the positions entered"""
    prev = {}
    todo = []
    for v in succ[src]:
        if v not in prev:
            prev[v] = None
            todo.append(v)
    while todo:
        u = todo.pop(0)
        if u == dst:
            path = []
            while u is not None:
                path.append(u)
                u = prev[u]
            return "".join(_char_of(masks[x]) or "?" for x in reversed(path))
        for v in succ[u]:
            if v not in prev:
                prev[v] = u
                todo.append(v)
    return None


def _ida_chain(P, masks, succ, on_cycle, reach_from):
    """length of the longest chain of self-looping positions with a common character, each reachable from the previous one
    (a lower bound of the polynomial degree of ambiguity + 1 on pumped inputs)"""
    loops = [p for p in sorted(on_cycle) if p in succ[p] or p in reach_from(succ[p])]
    best = 0
    memo = {}

    def chain(p, mask):
        key = (p, mask)
        if key in memo:
            return memo[key]
        memo[key] = 1
        b = 1
        for q in loops:
            if q != p and q in reach_from(succ[p]) and p not in reach_from(succ[q]) and (mask & masks[q]):
                b = max(b, 1 + chain(q, mask & masks[q]))
        memo[key] = b
        return b
    for p in loops:
        best = max(best, chain(p, masks[p]))
    return best


# ---- (b) step-counting backtracking matcher ----------------------------------------------------------

class Budget(Exception):
    pass


class State(object):
    def __init__(self, budget):
        self.steps = 0
        self.budget = budget
        self.groups = {}

    def tick(self):
        self.steps += 1
        if self.steps > self.budget:
            raise Budget()


def compile_matcher(tree, flags=0):
    """-> function run(s, budget) -> (end index or None, groups, steps); semantics of pattern.match(s)."""

    def comp_seq(items):
        ms = [comp(op, av) for op, av in items]

        def m(s, i, k, st):
            def step(idx, j):
                if idx == len(ms):
                    return k(j)
                return ms[idx](s, j, lambda j2: step(idx + 1, j2), st)
            return step(0, i)
        return m

    def comp(op, av):
        if op in CONSUMING:
            pred = char_pred(op, av, flags)

            def m(s, i, k, st):
                st.tick()
                return i < len(s) and pred(s[i]) and k(i + 1)
            return m
        if op == C.SUBPATTERN:
            gid = av[0]
            inner = comp_seq(av[-1])

            def m(s, i, k, st):
                def done(j):
                    old = st.groups.get(gid)
                    st.groups[gid] = (i, j)
                    if k(j):
                        return True
                    if old is None:
                        st.groups.pop(gid, None)
                    else:
                        st.groups[gid] = old
                    return False
                return inner(s, i, done, st)
            return m if gid is not None else inner
        if op == C.BRANCH:
            alts = [comp_seq(a) for a in av[1]]

            def m(s, i, k, st):
                for a in alts:
                    st.tick()
                    if a(s, i, k, st):
                        return True
                return False
            return m
        if op in (C.MAX_REPEAT, C.MIN_REPEAT):
            lo, hi, body = av
            inner = comp_seq(body)
            greedy = op == C.MAX_REPEAT

            def m(s, i, k, st):
                def rec(j, count):
                    st.tick()
                    def more():
                        return count < hi and inner(s, j, lambda j2: (j2 != j or count < lo) and rec(j2, count + 1), st)
                    if greedy:
                        if more():
                            return True
                        return count >= lo and k(j)
                    if count >= lo and k(j):
                        return True
                    return more()
                return rec(i, 0)
            return m
        if op == C.AT:
            name = str(av)

            def m(s, i, k, st):
                st.tick()
                if name == "AT_BEGINNING" or name == "AT_BEGINNING_STRING":
                    ok = i == 0
                elif name == "AT_END":
                    ok = i == len(s) or (i == len(s) - 1 and s[i] == "\n")
                elif name == "AT_END_STRING":
                    ok = i == len(s)
                else:
                    raise Unsupported(name)
                return ok and k(i)
            return m
        if op in (C.ASSERT, C.ASSERT_NOT):
            direction, sub = av
            inner = comp_seq(sub)
            width = sub.getwidth()
            if direction < 0 and width[0] != width[1]:
                raise Unsupported("variable-width look-behind")

            def m(s, i, k, st):
                st.tick()
                start = i if direction > 0 else i - width[0]
                hit = start >= 0 and inner(s, start, (lambda j: True) if direction > 0 else (lambda j: j == i), st)
                return (hit == (op == C.ASSERT)) and k(i)
            return m
        raise Unsupported(str(op))

    top = comp_seq(list(tree))

    def run(s, budget=10 ** 7):
        st = State(budget)
        end = []
        sys.setrecursionlimit(max(sys.getrecursionlimit(), 60000))
        try:
            ok = top(s, 0, lambda j: end.append(j) or True, st)
        except Budget:
            return "budget", {}, st.steps
        return (end[0] if ok else None), dict(st.groups), st.steps
    return run
