"""Spec-space breadth-first exploration with a deviation bound (shape S of DESIGN.md section 2).

A universe gives  seeds: [(name, spec)],  edits(spec) -> [edit],  apply(spec, edit) -> spec',
canon(spec) -> key.  The space with <= k edits from a seed is enumerated completely; work is
partitioned by the first edit so that units are independent (each unit keeps a local `seen`; the
distinct-state count is taken on merged digests, so overlap costs time, never coverage).
"""
import collections


def spec_units(universe, k):
    """Work units: ("root", seed_idx) checks the seed and (if k == 1) nothing else;
    ("sub", seed_idx, edit_idx) checks the state after the edit and everything below it up to depth k."""
    units = []
    for si, (_, spec) in enumerate(universe.seeds()):
        units.append(("root", si))
        if k >= 1:
            for ei in range(len(universe.edits(spec))):
                units.append(("sub", si, ei))
    return units


def explore_unit(universe, unit, k, acc, visit):
    """visit(spec, trace, parent_spec, last_edit) is called once per distinct state of the unit.

    trace = [seed name, edit, edit, ...]."""
    seeds = universe.seeds()
    name, seed = seeds[unit[1]]
    if unit[0] == "root":
        if acc.state(universe.canon(seed)):
            visit(seed, [name], None, None)
        return
    first = universe.edits(seed)[unit[2]]
    s1 = universe.apply(seed, first)
    acc.trans()
    seen = {universe.canon(seed)}
    key = universe.canon(s1)
    if key in seen:
        return
    seen.add(key)
    frontier = collections.deque([(s1, [name, first], seed, first)])
    while frontier:
        spec, trace, parent, last = frontier.popleft()
        if acc.state(universe.canon(spec)):
            pass
        visit(spec, trace, parent, last)
        if len(trace) - 1 >= k:
            continue
        for e in universe.edits(spec):
            nxt = universe.apply(spec, e)
            acc.trans()
            key = universe.canon(nxt)
            if key in seen:
                continue
            seen.add(key)
            frontier.append((nxt, trace + [e], spec, e))
