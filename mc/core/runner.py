"""Common runner for all property checks.

A check module (mc/checks/cNN.py) provides

    ID, LEVEL                      property id and evidence level
    units(tier, seed) -> [unit]    picklable work units; the bounded space is the union of the units
    run_unit(unit, acc)            explores one unit on the real library, records into acc
    replay(case) -> observed       re-executes ONE recorded case without the explorer
    KNOWN = {name: pred(case, observed) -> bool}   predicates for KNOWN_FINDINGS.txt entries
    describe(tier) -> dict         rule / bound / assumptions texts
    REQUIRED_OUTCOMES = [...]      outcome labels that must be observed (vacuity guard)

The runner partitions the units over worker processes, merges the accumulators, matches every
violation instance against the open known findings, replays every unknown violation twice in fresh
interpreter processes (NONDETERMINISM = exit 2), writes the evidence file and sets the exit status.
"""
import collections
import hashlib
import importlib
import json
import multiprocessing
import os
import subprocess
import sys
import time
import traceback

VERIF = os.path.dirname(os.path.dirname(os.path.dirname(os.path.abspath(__file__))))
REPO = os.environ.get("VERIF_REPO_ROOT", "/repo")
OUT = os.environ.get("VERIF_OUT_DIR", VERIF)        # evidence/ and replays/ live here (scratch dir for seeded runs)
MAX_EXAMPLES = 3
MAX_REPLAYED_SIGS = 6


def bind_repo():
    """Import productmd from REPO's working tree and assert that this is what we got."""
    if REPO not in sys.path:
        sys.path.insert(0, REPO)
    import productmd
    here = os.path.realpath(productmd.__file__)
    if not here.startswith(os.path.realpath(REPO) + os.sep):
        raise SystemExit("HARNESS ERROR: productmd imported from %s, expected under %s" % (here, REPO))
    return productmd


def h64(obj):
    if not isinstance(obj, (bytes, str)):
        obj = repr(obj)
    if isinstance(obj, str):
        obj = obj.encode("utf-8", "surrogatepass")
    return int.from_bytes(hashlib.blake2b(obj, digest_size=8).digest(), "big")


def jsonable(x):
    """Turn harness data into something json.dump accepts (sets sorted, tuples listed, keys str)."""
    if isinstance(x, dict):
        return {(k if isinstance(k, str) else repr(k)): jsonable(v) for k, v in x.items()}
    if isinstance(x, (list, tuple)):
        return [jsonable(i) for i in x]
    if isinstance(x, (set, frozenset)):
        return sorted((jsonable(i) for i in x), key=repr)
    if isinstance(x, bytes):
        return {"__bytes__": x.decode("latin-1")}
    if isinstance(x, float) and (x != x or x in (float("inf"), float("-inf"))):
        return repr(x)
    if x is None or isinstance(x, (str, int, float, bool)):
        return x
    return repr(x)


class Acc(object):
    """Accumulator filled by one work unit; merged across units/processes."""

    def __init__(self, pid=None, known=None):
        self.pid = pid
        self.known = known or []            # [(finding_name, predicate)]
        self.n = collections.Counter()      # evaluations, transitions, traces, ...
        self.states = set()                 # 64-bit digests of canonical states
        self.nontrivial = set()             # 64-bit digests of distinct non-trivial cases
        self.outcomes = collections.Counter()
        self.samples = []
        self.buckets = {}                   # (sig, finding or None) -> {"count", "examples"}
        self.caps = []
        self.extra = {}
        self.unit_index = None              # index of the work unit being run (recorded with every violation example)

    # -- counting -------------------------------------------------------------------------------
    def ev(self, k=1):
        self.n["evaluations"] += k

    def trans(self, k=1):
        self.n["transitions"] += k

    def trace(self, k=1):
        self.n["traces"] += k

    def state(self, key):
        d = h64(key)
        if d in self.states:
            return False
        self.states.add(d)
        return True

    def nontriv(self, key):
        self.nontrivial.add(h64(key))

    def outcome(self, label, k=1):
        self.outcomes[label] += k

    def sample(self, s, limit=4):
        if len(self.samples) < limit:
            self.samples.append(jsonable(s))

    def cap(self, what):
        if what not in self.caps:
            self.caps.append(what)

    # -- violations -----------------------------------------------------------------------------
    def violation(self, sig, case, observed, msg):
        """Record one violating instance.  `case` must be replayable by check.replay(case)."""
        case = jsonable(case)
        observed = jsonable(observed)
        name = None
        for fname, pred in self.known:
            try:
                if pred(case, observed):
                    name = fname
                    break
            except Exception:           # a predicate that cannot judge an instance does not match it
                pass
        b = self.buckets.setdefault((sig, name), {"count": 0, "examples": []})
        b["count"] += 1
        if len(b["examples"]) < MAX_EXAMPLES:
            b["examples"].append({"case": case, "observed": observed, "msg": msg, "unit_index": self.unit_index})

    def merge(self, other):
        self.n.update(other.n)
        self.states |= other.states
        self.nontrivial |= other.nontrivial
        self.outcomes.update(other.outcomes)
        for s in other.samples:
            if len(self.samples) < 6 and s not in self.samples:
                self.samples.append(s)
        for k, b in other.buckets.items():
            mine = self.buckets.setdefault(k, {"count": 0, "examples": []})
            mine["count"] += b["count"]
            for e in b["examples"]:
                if len(mine["examples"]) < MAX_EXAMPLES:
                    mine["examples"].append(e)
        for c in other.caps:
            self.cap(c)
        for k, v in other.extra.items():
            if isinstance(v, (int, float)) and isinstance(self.extra.get(k), (int, float)):
                self.extra[k] += v
            elif isinstance(v, list) and isinstance(self.extra.get(k), list):
                for i in v:
                    if i not in self.extra[k]:
                        self.extra[k].append(i)
            elif isinstance(v, dict) and isinstance(self.extra.get(k), dict):
                for kk, vv in v.items():
                    if isinstance(vv, (int, float)) and isinstance(self.extra[k].get(kk), (int, float)):
                        self.extra[k][kk] += vv
                    else:
                        self.extra[k].setdefault(kk, vv)
            else:
                self.extra.setdefault(k, v)


# ------------------------------------------------------------------------------------------------
# known findings
# ------------------------------------------------------------------------------------------------

def load_findings(path=None):
    """KNOWN_FINDINGS.txt -> ([open entries], [fixed entries]).  Never written at run time."""
    path = path or os.path.join(VERIF, "KNOWN_FINDINGS.txt")
    opened, fixed = [], []
    if not os.path.exists(path):
        return opened, fixed
    with open(path) as f:
        for line in f:
            line = line.strip()
            if not line or line.startswith("#"):
                continue
            if line.startswith("open:"):
                rest = line[5:].strip().split(None, 2)
                d = dict(p.split("=", 1) for p in rest[:2])
                opened.append({"property": d["property"], "match": d["match"],
                               "what": rest[2] if len(rest) > 2 else ""})
            elif line.startswith("fixed:"):
                rest = line[6:].strip().split(None, 2)
                fixed.append({"property": rest[0].split("=", 1)[1], "commit": rest[1],
                              "what": rest[2] if len(rest) > 2 else ""})
    return opened, fixed


def known_for(check):
    opened, _ = load_findings()
    out = []
    for e in opened:
        if e["property"] != check.ID:
            continue
        pred = getattr(check, "KNOWN", {}).get(e["match"])
        if pred is None:
            raise SystemExit("HARNESS ERROR: KNOWN_FINDINGS.txt names unknown predicate %s for %s"
                             % (e["match"], check.ID))
        out.append((e["match"], pred))
    return out


# ------------------------------------------------------------------------------------------------
# parallel map
# ------------------------------------------------------------------------------------------------

_CHECK = None
_KNOWN = None


def _worker(iu):
    index, unit = iu
    acc = Acc(_CHECK.ID, _KNOWN)
    acc.unit_index = index
    try:
        _CHECK.run_unit(unit, acc)
    except Exception:
        acc.extra["harness_errors"] = ["unit %r: %s" % (unit, traceback.format_exc())]
    acc.known = None
    return acc


def run_units(check, units, procs):
    global _CHECK, _KNOWN
    _CHECK = check
    _KNOWN = known_for(check)
    total = Acc(check.ID)
    if procs <= 1 or len(units) <= 1:
        for iu in enumerate(units):
            total.merge(_worker(iu))
        return total
    ctx = multiprocessing.get_context("fork")
    with ctx.Pool(min(procs, len(units))) as pool:
        for acc in pool.imap_unordered(_worker, list(enumerate(units)), chunksize=1):
            total.merge(acc)
    return total


# ------------------------------------------------------------------------------------------------
# replay
# ------------------------------------------------------------------------------------------------

def write_replay(pid, sig, example, tier, seed, history_unit=None):
    d = os.path.join(OUT, "replays", pid)
    os.makedirs(d, exist_ok=True)
    body = {"property_id": pid, "signature": sig, "case": example["case"],
            "observed": example["observed"], "message": example["msg"], "tier": tier, "seed": seed,
            "how_to_replay": "cd /verif && ./check %s --replay <this file>" % pid}
    if history_unit is not None:
        # the outcome of this case depends on what the process did before it: the replay re-executes the work unit it belongs
        # to from its start (a deterministic operation sequence), in a fresh interpreter, up to and including this case
        body["history_unit"] = dict(history_unit, tier=tier, seed=seed)
    digest = "%016x" % h64(json.dumps([sig, example["case"]], sort_keys=True))
    path = os.path.join(d, "%s.json" % digest)
    with open(path, "w") as f:
        json.dump(body, f, indent=1, sort_keys=True)
        f.write("\n")
    return path


def replay_in_fresh_process(pid, path, timeout=600):
    env = dict(os.environ)
    env.update({"PYTHONDONTWRITEBYTECODE": "1", "PYTHONUTF8": "1"})
    p = subprocess.run([sys.executable, "-m", "mc.run", pid, "--replay", path, "--json"],
                       cwd=VERIF, env=env, stdout=subprocess.PIPE, stderr=subprocess.PIPE,
                       timeout=timeout, universal_newlines=True)
    for line in reversed(p.stdout.splitlines()):
        if line.startswith("REPLAY-RESULT "):
            return json.loads(line[len("REPLAY-RESULT "):])
    raise RuntimeError("replay produced no result (exit %s): %s %s" % (p.returncode, p.stdout[-2000:], p.stderr[-2000:]))


def first_example_of_unit(check, index, tier, seed, sig, case=None, prefix=False):
    """Runs ONE work unit from its start in this (fresh) process - with prefix=True: the work units 0..index one after the other,
    in their fixed order - and returns the first unknown violation example with signature `sig` (the one for `case` if given),
    or None."""
    bind_repo()
    units = check.units(tier, seed)
    known = known_for(check)
    for i in (range(index + 1) if prefix else [index]):
        acc = Acc(check.ID, known)
        acc.unit_index = i
        check.run_unit(units[i], acc)
        b = acc.buckets.get((sig, None))
        if not b:
            continue
        for e in b["examples"]:
            if case is None or e["case"] == case:
                return e
    return None


def unit_replay_in_fresh_process(pid, index, tier, seed, sig, timeout=3600, prefix=False):
    env = dict(os.environ)
    env.update({"PYTHONDONTWRITEBYTECODE": "1", "PYTHONUTF8": "1", "VERIF_SEED": str(seed)})
    p = subprocess.run([sys.executable, "-m", "mc.run", pid, "--tier", tier, "--replay-unit", "%d" % index, "--sig", sig]
                       + (["--prefix"] if prefix else []),
                       cwd=VERIF, env=env, stdout=subprocess.PIPE, stderr=subprocess.PIPE,
                       timeout=timeout, universal_newlines=True)
    for line in reversed(p.stdout.splitlines()):
        if line.startswith("UNIT-REPLAY-RESULT "):
            return json.loads(line[len("UNIT-REPLAY-RESULT "):])
    raise RuntimeError("unit replay produced no result (exit %s): %s %s" % (p.returncode, p.stdout[-2000:], p.stderr[-2000:]))


def do_replay(check, path, as_json=False):
    bind_repo()
    with open(path) as f:
        body = json.load(f)
    if body.get("history_unit"):
        hu = body["history_unit"]
        ex = first_example_of_unit(check, hu["index"], hu["tier"], hu["seed"], body["signature"], body["case"], hu.get("prefix", False))
        observed = ex["observed"] if ex else {"not_violated_in_this_run": True}
    else:
        observed = jsonable(check.replay(body["case"]))
    same = (observed == body.get("observed"))
    if as_json:
        print("REPLAY-RESULT " + json.dumps({"observed": observed, "same_as_recorded": same}, sort_keys=True))
        return 0
    print("replay of %s" % path)
    print("  case:     %s" % json.dumps(body["case"], sort_keys=True)[:2000])
    print("  recorded: %s" % json.dumps(body.get("observed"), sort_keys=True)[:2000])
    print("  observed: %s" % json.dumps(observed, sort_keys=True)[:2000])
    print("  message:  %s" % body.get("message"))
    if same:
        print("VIOLATION property=%s replay=%s" % (check.ID, path))
        return 1
    print("replay does not reproduce the recorded observation (the violation is gone or changed)")
    return 0


# ------------------------------------------------------------------------------------------------
# evidence
# ------------------------------------------------------------------------------------------------

def validate_evidence(path):
    schema = "/root/.vp/EVIDENCE.schema.json"
    with open(path) as f:
        ev = json.load(f)
    for k in ("property_id", "tier", "seed", "level", "coverage", "wall_s"):
        if k not in ev:
            return "missing key %s" % k
    if not os.path.exists(schema):
        return None
    vt = "/usr/local/bin/python3-vt"
    if os.path.exists(vt):
        code = ("import json,jsonschema,sys; s=json.load(open(%r)); e=json.load(open(%r)); "
                "jsonschema.Draft202012Validator(s).validate(e)" % (schema, path))
        p = subprocess.run([vt, "-W", "ignore", "-c", code], stdout=subprocess.PIPE, stderr=subprocess.PIPE,
                           universal_newlines=True)
        if p.returncode != 0:
            return p.stderr[-1500:]
    return None


def write_evidence(check, acc, tier, seed, wall, violations, info):
    cov = {
        "evaluations": int(acc.n["evaluations"]),
        "distinct_nontrivial": len(acc.nontrivial),
        "rule": info.get("rule", ""),
        "samples": (acc.samples[:6] or [{"violating_case": b["examples"][0]["case"]} for b in list(acc.buckets.values())[:3] if b["examples"]]
                    or [{"note": "no input was evaluated"}]),
        "exhaustive": bool(info.get("exhaustive", True)) and not acc.caps,
        "bound": info.get("bound", ""),
        "caps_hit": acc.caps,
        "outcomes": dict(sorted(acc.outcomes.items())),
        "distinct_outcomes": len(acc.outcomes),
    }
    if check.LEVEL == "model_checking":
        cov["states"] = len(acc.states)
        cov["transitions"] = int(acc.n["transitions"])
        cov["traces_validated_against_impl"] = int(acc.n["traces"])
        cov["model_binding"] = info.get("model_binding", "")
    for k, v in acc.extra.items():
        if k != "harness_errors":
            cov[k] = jsonable(v)
    for k, v in acc.n.items():
        if k not in ("evaluations", "transitions", "traces"):
            cov["n_" + k] = int(v)
    ev = {
        "property_id": check.ID, "tier": tier, "seed": int(seed), "level": check.LEVEL,
        "coverage": cov, "assumptions": info.get("assumptions", []),
        "wall_s": round(wall, 3), "violations": int(violations),
    }
    path = os.path.join(OUT, "evidence", "%s.json" % check.ID)
    os.makedirs(os.path.dirname(path), exist_ok=True)
    tmp = path + ".tmp%d" % os.getpid()
    with open(tmp, "w") as f:
        json.dump(ev, f, indent=1, sort_keys=True)
        f.write("\n")
    os.replace(tmp, path)
    return path


# ------------------------------------------------------------------------------------------------
# main
# ------------------------------------------------------------------------------------------------

def main(argv=None):
    import argparse
    ap = argparse.ArgumentParser(prog="check")
    ap.add_argument("pid")
    ap.add_argument("--tier", default=None, choices=["quick", "thorough"])
    ap.add_argument("--replay", default=None)
    ap.add_argument("--json", action="store_true")
    ap.add_argument("--replay-unit", type=int, default=None)
    ap.add_argument("--sig", default=None)
    ap.add_argument("--prefix", action="store_true")
    ap.add_argument("--procs", type=int, default=None)
    args = ap.parse_args(argv)

    tier = args.tier or os.environ.get("VERIF_TIER") or "quick"
    if tier not in ("quick", "thorough"):
        tier = "quick"
    try:
        seed = int(os.environ.get("VERIF_SEED", "0"))
    except ValueError:
        seed = 0
    check = importlib.import_module("mc.checks.%s" % args.pid.lower())

    if args.replay:
        return do_replay(check, args.replay, as_json=args.json)
    if args.replay_unit is not None:
        ex = first_example_of_unit(check, args.replay_unit, tier, seed, args.sig, prefix=args.prefix)
        print("UNIT-REPLAY-RESULT " + json.dumps(ex, sort_keys=True))
        return 0

    bind_repo()
    procs = args.procs or int(os.environ.get("VERIF_PROCS", "0")) or (16 if tier == "thorough" else 8)
    procs = max(1, min(procs, os.cpu_count() or 1))
    t0 = time.time()
    units = check.units(tier, seed)
    acc = run_units(check, units, procs)
    if hasattr(check, "post"):
        check.post(acc, tier, seed)          # sequential epilogue (cross-unit comparisons)
    wall = time.time() - t0
    info = check.describe(tier)

    # harness errors and vacuity are never silent passes
    herr = acc.extra.get("harness_errors")
    status = 0
    if herr:
        for e in herr[:3]:
            print("HARNESS ERROR in %s: %s" % (check.ID, e))
        status = 2
    missing = [o for o in getattr(check, "REQUIRED_OUTCOMES", []) if not acc.outcomes.get(o)]
    any_unknown = any(name is None for (_, name) in acc.buckets)
    if missing and not herr and not any_unknown:
        # (when violations were found, an expected "good" outcome may be missing because of them: report those instead)
        print("HARNESS ERROR in %s: vacuous run, outcomes never observed: %s" % (check.ID, missing))
        status = 2

    opened, _ = load_findings()
    what = {e["match"]: e["what"] for e in opened if e["property"] == check.ID}
    unknown = 0
    replayed = 0
    confirmed = False
    for (sig, name), b in sorted(acc.buckets.items(), key=lambda kv: (kv[0][1] or "", kv[0][0])):
        if name is not None:
            continue
        unknown += b["count"]
        if replayed >= MAX_REPLAYED_SIGS:
            continue
        replayed += 1
        ex = b["examples"][0]
        path = write_replay(check.ID, sig, ex, tier, seed)
        try:
            r1 = replay_in_fresh_process(check.ID, path)
            r2 = replay_in_fresh_process(check.ID, path)
        except Exception as exc:
            print("HARNESS ERROR in %s: replay failed for %s: %s" % (check.ID, path, exc))
            status = 2
            continue
        if not (r1["observed"] == r2["observed"] == ex["observed"]) and getattr(check, "NONDETERMINISM_IS_VIOLATION", False):
            print("  [%s] %d instance(s); first: %s" % (sig, b["count"], ex["msg"][:600]))
            print("  (the observation differs between identical runs in fresh interpreters - for this property that is itself the violation)")
            print("VIOLATION property=%s replay=%s" % (check.ID, path))
            confirmed = True
            continue
        if not (r1["observed"] == r2["observed"] == ex["observed"]) and ex.get("unit_index") is not None:
            # The single case, alone in a fresh interpreter, behaves differently: its outcome depends on what the process did
            # before.  Re-execute the whole work unit (a fixed operation sequence) from its start in two fresh interpreters: if
            # both runs report the same first violation of this kind, the dependence on earlier calls is deterministic and is
            # the library's (every case builds fresh objects) - a violation that needs a history, not a flaky harness.
            u1 = None
            for prefix in (False, True):
                # (first the unit alone; if the state it needs was left behind by EARLIER units of the same worker process, the
                # units 0..index one after the other in their fixed order - still one deterministic operation sequence)
                try:
                    u1 = unit_replay_in_fresh_process(check.ID, ex["unit_index"], tier, seed, sig, prefix=prefix)
                    u2 = unit_replay_in_fresh_process(check.ID, ex["unit_index"], tier, seed, sig, prefix=prefix) if u1 is not None else None
                except Exception as exc:
                    u1 = u2 = None
                    print("HARNESS ERROR in %s: unit replay failed: %s" % (check.ID, exc))
                    break
                if u1 is not None and u1 == u2:
                    break
                u1 = None
            if u1 is not None:
                path = write_replay(check.ID, sig, u1, tier, seed, history_unit={"index": u1.get("unit_index", ex["unit_index"]), "prefix": prefix})
                print("  [%s] %d instance(s); first: %s" % (sig, b["count"], u1["msg"][:600]))
                print("  (needs a history: alone in a fresh interpreter this case gives %s; the violation appears when the calls "
                      "of work unit%s #%d that precede it have run in the same process - reproduced identically in two fresh "
                      "interpreters)" % (json.dumps(r1["observed"])[:200], "s #0 to" if prefix else "", u1.get("unit_index", ex["unit_index"])))
                print("VIOLATION property=%s replay=%s" % (check.ID, path))
                confirmed = True
                continue
        if not (r1["observed"] == r2["observed"] == ex["observed"]):
            print("NONDETERMINISM in %s: replay of %s differs (explorer=%s, run1=%s, run2=%s)"
                  % (check.ID, path, json.dumps(ex["observed"])[:300], json.dumps(r1["observed"])[:300],
                     json.dumps(r2["observed"])[:300]))
            status = 2
            continue
        print("  [%s] %d instance(s); first: %s" % (sig, b["count"], ex["msg"][:600]))
        print("VIOLATION property=%s replay=%s" % (check.ID, path))
        confirmed = True               # a confirmed, replayed violation decides the exit status
    seen_known = collections.Counter()
    for (sig, name), b in acc.buckets.items():
        if name is not None:
            seen_known[name] += b["count"]
    for name in sorted(seen_known):
        print("KNOWN-FINDING: property=%s %s (%d instance(s) in this run)" % (check.ID, what.get(name, name), seen_known[name]))

    if confirmed:
        status = 1
    acc.extra["known_finding_instances"] = dict(seen_known)
    path = write_evidence(check, acc, tier, seed, wall, unknown, info)
    err = validate_evidence(path)
    if err:
        print("HARNESS ERROR in %s: evidence does not validate: %s" % (check.ID, err))
        status = status or 2
    cov = "evaluations=%d states=%d transitions=%d distinct_nontrivial=%d outcomes=%d" % (
        acc.n["evaluations"], len(acc.states), acc.n["transitions"], len(acc.nontrivial), len(acc.outcomes))
    print("%s tier=%s seed=%d %s violations=%d known=%d wall=%.1fs caps=%s -> exit %d"
          % (check.ID, tier, seed, cov, unknown, sum(seen_known.values()), wall, acc.caps or "none", status))
    return status
