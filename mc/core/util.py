"""Small helpers shared by the checks."""


def diff(a, b, path="", out=None, limit=6):
    """Human-readable list of the first differences between two plain-data trees (a = observed, b = expected)."""
    out = [] if out is None else out
    if len(out) >= limit:
        return out
    if type(a) != type(b):
        out.append("%s: %r != %r" % (path, a, b))
    elif isinstance(a, dict):
        for k in sorted(set(a) | set(b), key=repr):
            if k not in a or k not in b:
                out.append("%s.%s: %s" % (path, k, "missing in observed" if k not in a else "unexpected in observed"))
            else:
                diff(a[k], b[k], "%s.%s" % (path, k), out, limit)
    elif isinstance(a, (list, tuple)):
        if len(a) != len(b):
            out.append("%s: length %d != %d" % (path, len(a), len(b)))
        else:
            for i, (x, y) in enumerate(zip(a, b)):
                diff(x, y, "%s[%d]" % (path, i), out, limit)
    elif a != b:
        out.append("%s: %r != %r" % (path, a, b))
    return out


def exc_name(exc):
    """Name of the exception class as the properties see it: a class the library defines itself counts as the class it
    derives from (class FieldTypeError(TypeError) IS a TypeError), everything else keeps its own name."""
    for cls in type(exc).__mro__:
        if not (getattr(cls, "__module__", "") or "").startswith("productmd"):
            return cls.__name__
    return type(exc).__name__


def call(fn, *a, **kw):
    """["ok", value] or ["exc", ExceptionTypeName] - deterministic across processes."""
    try:
        return ["ok", fn(*a, **kw)]
    except Exception as exc:                                       # noqa
        return ["exc", exc_name(exc)]
