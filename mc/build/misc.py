"""Small valid objects of the remaining formats (rpms, modules, extra files, discinfo), built through the public API."""

# (type, date and respin deliberately differ from what the id would decode to: they are facts of their own, a reader that
#  re-derives them from the id - as the pre-0.3 formats require - is seen)
COMPOSE = {"id": "Fedora-23-20160102.n.0", "type": "production", "date": "20151231", "respin": 4, "label": None, "final": False}


def set_compose(obj, c=None):
    c = c or COMPOSE
    obj.compose.id, obj.compose.type, obj.compose.date, obj.compose.respin = c["id"], c["type"], c["date"], c["respin"]
    obj.compose.label, obj.compose.final = c["label"], c["final"]
    return obj


def rpms(n=2):
    import productmd.rpms as pr
    r = set_compose(pr.Rpms())
    r.add("Server", "x86_64", "bash-0:4.3-1.fc23.x86_64", "Server/x86_64/os/Packages/b/bash.rpm", "ABCDEF12", "binary",
          "bash-0:4.3-1.fc23.src")
    if n > 1:
        r.add("Server", "x86_64", "bash-0:4.3-1.fc23.src", "Server/source/SRPMS/b/bash.src.rpm", None, "source")
        r.add("Client", "i386", "ceph-debuginfo-2:12.2.5-25.el7cp.i686", "Client/i386/debug/ceph-debuginfo.rpm", "abcdef12",
              "debug", "ceph-2:12.2.5-25.el7cp.src")
    return r


def modules():
    import productmd.modules as pm
    m = set_compose(pm.Modules())
    m.add("Server", "x86_64", "perl:5.26:20180101:abcdef", "module-perl-5.26", "Server/x86_64/os/repodata/perl.yaml", "binary",
          ["perl-0:5.26-1.x86_64"])
    m.add("Server", "x86_64", "perl:5.26:20180101:abcdef", "module-perl-5.26", "Server/x86_64/debug/repodata/perl.yaml", "debug",
          ["perl-debuginfo-0:5.26-1.x86_64"])
    return m


def extra_files():
    import productmd.extra_files as pe
    e = set_compose(pe.ExtraFiles())
    e.add("Server", "x86_64", "Server/x86_64/os/GPL", 123, {"sha256": "a" * 64})
    e.add("Server", "x86_64", "Server/x86_64/os/EULA", 45, {"md5": "b" * 32, "sha1": "c" * 40})
    return e


def discinfo():
    import productmd.discinfo as pd
    d = pd.DiscInfo()
    d.timestamp, d.description, d.arch, d.disc_numbers = 1417653453.026288, "Fedora 21", "x86_64", ["ALL"]
    return d
