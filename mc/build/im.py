"""Images manifests: specs, builder through the public API, observer, edit operations.

spec = {"header": None | "1.1" | "1.2"      (header version set by the caller before the first add; None = default),
        "compose": {id, type, date, respin, label, final},
        "images": [imgspec],                 pool of Image objects
        "cells": [[variant, arch, idx]]}     placements; the same idx in several cells = the same object filed twice
"""
import copy
import json

ATTRS = ["path", "mtime", "size", "volume_id", "type", "format", "arch", "disc_number", "disc_count", "checksums",
         "implant_md5", "bootable", "subvariant", "unified", "additional_variants"]
IDENTITY = ["subvariant", "type", "format", "arch", "disc_number", "unified", "additional_variants"]
SHA256 = "a" * 64
CHK1 = {"sha256": SHA256}
CHK3 = {"md5": "b" * 32, "sha1": "c" * 40, "sha256": "d" * 64}
VARIANTS = ["Server", "Client", "Server-optional"]
ARCHES = ["x86_64", "i386", "aarch64"]


def imgspec(n, **kw):
    s = {"path": "Server/x86_64/iso/img-%d.iso" % n, "mtime": 1451606400 + n, "size": 1000 + n, "volume_id": "Vol-%d" % n,
         "type": "dvd", "format": "iso", "arch": "x86_64", "disc_number": 1, "disc_count": 1,
         "checksums": dict(CHK1), "implant_md5": None, "bootable": False, "subvariant": "Sub%d" % n,
         "unified": False, "additional_variants": []}
    s.update(kw)
    return s


def compose_section():
    return {"id": "Fedora-23-20160102.n.0", "type": "nightly", "date": "20160102", "respin": 0, "label": None,
            "final": False}


def seed_one():
    return {"header": None, "compose": compose_section(), "images": [imgspec(0)], "cells": [["Server", "x86_64", 0]]}


def seed_grid():
    imgs = [imgspec(0), imgspec(1, type="netinst", bootable=True, implant_md5="0123456789abcdef0123456789abcdef"),
            imgspec(2, type="live", format="iso", subvariant="KDE", checksums=dict(CHK3)),
            imgspec(3, unified=True, additional_variants=["Client", "Server-optional"], size=2 ** 33 + 1),
            imgspec(4, arch="src", type="dvd", disc_number=2, disc_count=3, volume_id=None),
            imgspec(5, subvariant="Sub0")]          # identical identity AND checksums to image 0, another path: both must survive
    cells = [["Server", "x86_64", 0], ["Server", "x86_64", 1], ["Server", "x86_64", 2], ["Server", "i386", 3],
             ["Client", "x86_64", 3], ["Client", "i386", 4], ["Server", "x86_64", 4], ["Client", "x86_64", 5]]
    return {"header": "1.2", "compose": compose_section(), "images": imgs, "cells": cells}


def seed_v11():
    s = seed_one()
    s["header"] = "1.1"
    s["images"].append(imgspec(1, type="qcow2", format="qcow2", size=2 ** 32))
    s["cells"].append(["Server", "x86_64", 1])
    s["compose"].update({"label": "RC-1.0", "final": True, "type": "production"})
    return s


SEEDS = [("one", seed_one), ("grid", seed_grid), ("v11", seed_v11)]


def identity(s):
    return tuple(json.dumps(s[k]) for k in IDENTITY)


def valid(spec):
    """No two pool images with equal identity and different checksums (that is C09's subject), distinct paths per cell."""
    seen = {}
    for s in spec["images"]:
        k = identity(s)
        if k in seen and seen[k] != s["checksums"]:
            return False
        seen[k] = s["checksums"]
    per_cell = {}
    for v, a, i in spec["cells"]:
        paths = per_cell.setdefault((v, a), {})
        p = spec["images"][i]["path"]
        if p in paths and paths[p] != i:
            return False
        paths[p] = i
    if any(s["additional_variants"] and not s["unified"] for s in spec["images"]):
        return False
    return True


def canon(spec):
    s = copy.deepcopy(spec)
    s["cells"] = sorted(s["cells"])
    s["removed"] = sorted(r for r in s.get("removed", []) if r not in s["cells"])
    return json.dumps(s, sort_keys=True)


def mk_image(parent, s):
    import productmd.images as pi
    img = pi.Image(parent)
    for k in ATTRS:
        setattr(img, k, copy.deepcopy(s[k]))
    return img


def build(spec, _pollute=True):
    if _pollute:
        # an unrelated object of the same classes is built first: class- or module-level state must not leak into this one
        build(seed_v11(), _pollute=False)
    import productmd.images as pi
    im = pi.Images()
    if spec["header"]:
        im.header.version = spec["header"]
    c = spec["compose"]
    im.compose.id, im.compose.type, im.compose.date, im.compose.respin = c["id"], c["type"], c["date"], c["respin"]
    im.compose.label, im.compose.final = c["label"], c["final"]
    objs = [mk_image(im, s) for s in spec["images"]]
    for v, a, i in spec["cells"] + spec.get("removed", []):
        im.add(v, a, objs[i])
    for v, a, i in spec.get("removed", []):
        if [v, a, i] not in spec["cells"]:
            im.images[v][a].discard(objs[i])           # taken out again: the cell may stay behind empty
    return im


def obs_image(img):
    return {k: copy.deepcopy(getattr(img, k)) for k in ATTRS}


def observe(im):
    cells = {}
    for v in im.images:
        for a in im.images[v]:
            cells.setdefault(v, {})[a] = sorted((obs_image(i) for i in im.images[v][a]),
                                                key=lambda d: json.dumps(d, sort_keys=True))
    return {"compose": {"id": im.compose.id, "type": im.compose.type, "date": im.compose.date,
                        "respin": im.compose.respin, "label": im.compose.label, "final": im.compose.final},
            "cells": cells}


def expected_observation(spec):
    idx = {}
    for v, a, i in spec["cells"]:
        idx.setdefault(v, {}).setdefault(a, set()).add(i)
    cells = {v: {a: sorted((copy.deepcopy(spec["images"][i]) for i in ii), key=lambda d: json.dumps(d, sort_keys=True))
                 for a, ii in d.items()} for v, d in idx.items()}
    c = copy.deepcopy(spec["compose"])
    if not c["label"]:
        c["label"], c["final"] = None, False
    return {"compose": c, "cells": cells}


def edits(spec, seed=0):
    from mc.models import ids
    out = []
    alph = [("type", list(ids.IMAGE_TYPES_DOC)), ("format", list(ids.IMAGE_FORMATS_DOC)),
            ("volume_id", [None, "Fedora 23 x86_64", "Völ \"q\""]), ("implant_md5", [None, "0123456789abcdef0123456789abcdef"]),
            ("checksums", [dict(CHK1), dict(CHK3)]), ("size", [1, 2 ** 32, 2 ** 33 + 1, 1000.5]),
            ("mtime", [0, 1451606400, 2 ** 33, 1556179200.75]),        # (floats: refused today; if ever accepted they must cycle)
            ("bootable", [False, True]), ("subvariant", ["", "KDE"]), ("arch", ["x86_64", "src", "aarch64"]),
            ("path", [".work/Server/img.iso", "../shared/img.iso", "./img.iso"])]
    for i, s in enumerate(spec["images"]):
        for f, values in alph:
            for v in values:
                if s[f] != v:
                    out.append(["img", i, f, v])
        for dn, dc in ((1, 1), (2, 3), (3, 3), (0, 2), (0, 0)):
            if (s["disc_number"], s["disc_count"]) != (dn, dc):
                out.append(["disc", i, dn, dc])
        for uni, av in ((False, []), (True, []), (True, ["Client"]), (True, ["Server", "Client"]), (True, ["Client", "Server"])):
            if (s["unified"], s["additional_variants"]) != (uni, av):
                out.append(["unified", i, uni, av])
    cells = {(v, a) for v, a, _ in spec["cells"]}
    variants = sorted({v for v, _ in cells})
    cand_cells = sorted(cells)
    for v in VARIANTS:
        if v not in variants and len(variants) < 3:
            cand_cells.append((v, "x86_64"))
            break
    for v in variants:
        have = [a for vv, a in cells if vv == v]
        for a in ARCHES:
            if a not in have and len(have) < 3:
                cand_cells.append((v, a))
                break
    n = len(spec["images"])
    for v, a in cand_cells:
        count = len({i for vv, aa, i in spec["cells"] if (vv, aa) == (v, a)})
        if count < 3 and n < 7:
            out.append(["addimg", v, a])
        for i in range(n):
            if [v, a, i] not in spec["cells"] and count < 3:
                out.append(["alias", i, v, a])
    for v, a, i in spec["cells"]:
        out.append(["unplace", v, a, i])                  # (also the last one: a manifest without images)
    for h in (None, "1.1", "1.2"):
        if spec["header"] != h:
            out.append(["hdr", h])
    for lab, fin in ((None, False), (None, True), ("Beta-1.2", False), ("RC-3.0", True), ("Beta-1.2", True), ("RC-3.0", False),
                     ("Alpha-1.0", True), ("Update-2.1", True), ("EA-1.1", True)):
        if (spec["compose"]["label"], spec["compose"]["final"]) != (lab, fin):
            out.append(["label", lab, fin])
    for t, d, r in (("production", "20160102", 0), ("test", "99999999", 12), ("development", "00000000", 10 ** 7)):
        if (spec["compose"]["type"], spec["compose"]["date"], spec["compose"]["respin"]) != (t, d, r):
            out.append(["ctriple", t, d, r])
    return [e for e in out if valid(apply_spec(spec, e))]


def apply_spec(spec, e):
    s = copy.deepcopy(spec)
    k = e[0]
    if k == "img":
        s["images"][e[1]][e[2]] = copy.deepcopy(e[3])
    elif k == "disc":
        s["images"][e[1]]["disc_number"], s["images"][e[1]]["disc_count"] = e[2], e[3]
    elif k == "unified":
        s["images"][e[1]]["unified"], s["images"][e[1]]["additional_variants"] = e[2], list(e[3])
    elif k == "addimg":
        n = len(s["images"])
        s["images"].append(imgspec(n, path="%s/%s/iso/img-%d.iso" % (e[1], e[2], n)))
        s["cells"].append([e[1], e[2], n])
    elif k == "alias":
        s["cells"].append([e[2], e[3], e[1]])
    elif k == "unplace":
        s["cells"].remove([e[1], e[2], e[3]])
        s.setdefault("removed", []).append([e[1], e[2], e[3]])
    elif k == "hdr":
        s["header"] = e[1]
    elif k == "label":
        s["compose"]["label"], s["compose"]["final"] = e[1], e[2]
    elif k == "ctriple":
        s["compose"]["type"], s["compose"]["date"], s["compose"]["respin"] = e[1], e[2], e[3]
    else:
        raise ValueError(e)
    return s


def apply_obj(im, e, spec_before):
    """The same edit on a live (re-read) Images object.  Pool index -> the re-read objects with that spec."""
    k = e[0]

    def objs_of(idx):
        want = spec_before["images"][idx]
        found = []
        for v in im.images:
            for a in im.images[v]:
                for img in im.images[v][a]:
                    if obs_image(img) == want:
                        found.append(img)
        return found
    if k == "img":
        for o in objs_of(e[1]):
            setattr(o, e[2], copy.deepcopy(e[3]))
    elif k == "disc":
        for o in objs_of(e[1]):
            o.disc_number, o.disc_count = e[2], e[3]
    elif k == "unified":
        for o in objs_of(e[1]):
            o.unified = e[2]
            o.additional_variants[:] = list(e[3])       # edited IN PLACE, as a caller appending to the list would
    elif k == "addimg":
        n = len(spec_before["images"])
        im.add(e[1], e[2], mk_image(im, imgspec(n, path="%s/%s/iso/img-%d.iso" % (e[1], e[2], n))))
    elif k == "alias":
        found = objs_of(e[1])
        # (a pool image that is filed nowhere was not written, so the re-read manifest has no object for it: a new one is made)
        im.add(e[2], e[3], found[0] if found else mk_image(im, spec_before["images"][e[1]]))
    elif k == "unplace":
        for o in objs_of(e[3]):
            if o in im.images[e[1]][e[2]]:
                im.images[e[1]][e[2]].discard(o)
    elif k == "hdr":
        pass                                   # a re-read manifest always carries the current version
    elif k == "label":
        im.compose.label, im.compose.final = e[1], e[2]
    elif k == "ctriple":
        im.compose.type, im.compose.date, im.compose.respin = e[1], e[2], e[3]
