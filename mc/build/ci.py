"""Composeinfo: specs (plain data), builder through the public API, observer, edit operations.

spec = {"release": {name, short, version, type, is_layered, internal},
        "base_product": None | {name, short, version, type},
        "compose": {id ("auto" = create_compose_id()), type, date, respin, label, final},
        "variants": [variant]}
variant = {id, uid, name, type, arches [sorted], paths {category: {arch: path}}, release None | {...},
           children [variant]}
"""
import copy
import json

PATH_CATEGORIES = ["os_tree", "packages", "repository", "isos", "images", "jigdos",
                   "source_tree", "source_packages", "source_repository", "source_isos", "source_jigdos",
                   "debug_tree", "debug_packages", "debug_repository"]
VARIANT_TYPES_DOC = ["variant", "optional", "addon", "layered-product"]
LABEL_NAMES_DOC = ["EA", "DevelPhaseExit", "InternalAlpha", "Alpha", "InternalSnapshot", "Beta", "Snapshot", "RC",
                   "Update", "SecurityFix"]
RELEASE_TYPES_DOC = ["fast", "ga", "updates", "updates-testing", "eus", "aus", "els", "tus", "e4s"]
COMPOSE_TYPES_DOC = ["test", "ci", "nightly", "production", "development"]
TOP_ARCHES = ["x86_64", "i386", "aarch64"]


def vspec(vid, vtype="variant", arches=("x86_64",), parent_uid=None, name=None, paths=None, release=None,
          children=None, uid=None):
    if uid is None:
        uid = vid if parent_uid is None else "%s-%s" % (parent_uid, vid)
    if vtype == "layered-product" and release is None:
        release = {"name": "Layered %s" % vid, "short": "lp-%s" % vid.lower(), "version": "2.1", "type": "ga",
                   "internal": False}
    return {"id": vid, "uid": uid, "name": name or ("%s name" % uid), "type": vtype, "arches": sorted(arches),
            "paths": paths or {}, "release": release, "children": children or []}


def seed_flat():
    return {"release": {"name": "Fedora", "short": "f", "version": "23", "type": "ga", "is_layered": False,
                        "internal": False},
            "base_product": None,
            "compose": {"id": "auto", "type": "production", "date": "20160102", "respin": 0, "label": None,
                        "final": False},
            "variants": [vspec("Server", arches=["x86_64"])]}


def seed_forest():
    gc = vspec("lp", "layered-product", ["x86_64"], parent_uid="Server-optional")
    child = vspec("optional", "optional", ["x86_64", "i386"], parent_uid="Server", children=[gc],
                  paths={"os_tree": {"x86_64": "Server-optional/x86_64/os", "i386": "Server-optional/i386/os"}})
    addon = vspec("HA", "addon", ["x86_64"], parent_uid="Server")
    top = vspec("Server", arches=["x86_64", "i386"], children=[child, addon],
                paths={"os_tree": {"x86_64": "Server/x86_64/os", "i386": "Server/i386/os"},
                       "debug_packages": {"x86_64": "Server/x86_64/debug/tree/Packages"}})
    s = seed_flat()
    s["variants"] = [top, vspec("Client", arches=["i386"])]
    s["compose"].update({"type": "nightly", "respin": 3})
    return s


def seed_layered():
    s = seed_flat()
    s["release"].update({"name": "Satellite", "short": "sat", "version": "6.2", "type": "updates", "is_layered": True,
                         "internal": True})
    s["base_product"] = {"name": "Red Hat Enterprise Linux", "short": "rhel", "version": "7", "type": "eus"}
    s["compose"].update({"type": "test", "label": "RC-1.0", "final": True})
    s["variants"] = [vspec("Sat", arches=["x86_64"], paths={"repository": {"x86_64": "Sat/x86_64/os"},
                                                             "source_tree": {"x86_64": "Sat/source/tree"}})]
    return s


def seed_two_level():
    """Depth-2 forest without layered products: expressible in every older composeinfo version (UID-prefix relations)."""
    s = seed_flat()
    kids = [vspec("optional", "optional", ["x86_64", "i386"], parent_uid="Server",
                  paths={"repository": {"x86_64": "Server-optional/x86_64/os", "i386": "Server-optional/i386/os"}}),
            vspec("HA", "addon", ["x86_64"], parent_uid="Server", paths={"packages": {"x86_64": "Server/x86_64/os/addons/HA"}})]
    s["variants"] = [vspec("Server", arches=["x86_64", "i386"], children=kids,
                           paths={"os_tree": {"x86_64": "Server/x86_64/os", "i386": "Server/i386/os"}}),
                     vspec("Client", arches=["i386"], children=[vspec("extras", "variant", ["i386"], parent_uid="Client")])]
    s["compose"].update({"type": "test", "respin": 12, "label": "Beta-1.2"})
    return s


def seed_bare():
    """A compose that has no variants (yet): the forest is empty."""
    s = seed_flat()
    s["variants"] = []
    return s


def seed_dashed():
    """Two top-level variants, one of them with a dashed UID (registered under its dash-less id when built through add(),
    under its UID after a load) and paths for two arches."""
    s = seed_flat()
    s["variants"] = [vspec("Server", arches=["i386", "x86_64"]),
                     vspec("Serveroptional", "optional", ["i386", "x86_64"], uid="Server-optional"),
                     vspec("Workstation", arches=["x86_64"])]
    for v in s["variants"][:2]:
        for a in v["arches"]:
            v["paths"]["os_tree"] = dict(v["paths"].get("os_tree", {}), **{a: "%s/%s/os" % (v["uid"], a)})
    return s


def seed_dashed_parent():
    """A top-level variant with a dashed UID that HAS children (used where only scratch builds are made: the library's own
    lookup by UID, ci["Atomic-Host-optional"], does not find such children, so live edits cannot address them)."""
    s = seed_flat()
    top = vspec("AtomicHost", arches=["i386", "x86_64"], uid="Atomic-Host")
    top["children"] = [vspec("optional", "optional", ["x86_64"], parent_uid="Atomic-Host"),
                       vspec("debug", "variant", ["i386", "x86_64"], parent_uid="Atomic-Host")]
    s["variants"].append(top)
    return s


SEEDS = [("flat", seed_flat), ("forest", seed_forest), ("layered", seed_layered), ("two-level", seed_two_level), ("bare", seed_bare),
         ("dashed", seed_dashed)]


# ------------------------------------------------------------------------------------------------
# walking specs
# ------------------------------------------------------------------------------------------------

def walk(variants, depth=1, parent=None):
    for v in variants:
        yield v, depth, parent
        for x in walk(v["children"], depth + 1, v):
            yield x


def find(spec, uid):
    for v, _, _ in walk(spec["variants"]):
        if v["uid"] == uid:
            return v
    raise KeyError(uid)


def canon(spec):
    s = copy.deepcopy(spec)

    def srt(vs):
        vs.sort(key=lambda v: v["id"])
        for v in vs:
            srt(v["children"])
    srt(s["variants"])
    return json.dumps(s, sort_keys=True)


def normalise(spec):
    """The documented normalisations: what a write/read cycle is expected to give back."""
    s = copy.deepcopy(spec)
    if not s["compose"]["label"]:
        s["compose"]["label"] = None
        s["compose"]["final"] = False
    if not s["release"]["is_layered"]:
        s["base_product"] = None
    for v, _, _ in walk(s["variants"]):
        paths = {}
        for cat, per_arch in v["paths"].items():
            kept = {a: p for a, p in per_arch.items() if p and a in v["arches"]}
            if kept:
                paths[cat] = kept
        v["paths"] = paths
        if v["type"] != "layered-product":
            v["release"] = None

    def srt(vs):
        vs.sort(key=lambda v: v["id"])
        for v in vs:
            srt(v["children"])
    srt(s["variants"])
    return s


# ------------------------------------------------------------------------------------------------
# building and observing real objects
# ------------------------------------------------------------------------------------------------

def _mk_variant(ci, v):
    import productmd.composeinfo as pc
    var = pc.Variant(ci)
    var.id, var.uid, var.name, var.type = v["id"], v["uid"], v["name"], v["type"]
    var.arches = set(v["arches"])
    for cat, per_arch in v["paths"].items():
        for arch, p in per_arch.items():
            getattr(var.paths, cat)[arch] = p
    if v.get("release"):
        r = v["release"]
        var.release.name, var.release.short, var.release.version, var.release.type = \
            r["name"], r["short"], r["version"], r["type"]
        var.release.internal = r["internal"]
    return var


def _add_tree(ci, container, v):
    var = _mk_variant(ci, v)
    container.add(var)
    for c in v["children"]:
        _add_tree(ci, var, c)
    return var


def build(spec, _pollute=True):
    if _pollute:
        # an unrelated object of the same classes is built first: class- or module-level state must not leak into this one
        build(seed_layered(), _pollute=False)
    import productmd.composeinfo as pc
    ci = pc.ComposeInfo()
    r = spec["release"]
    ci.release.name, ci.release.short, ci.release.version, ci.release.type = r["name"], r["short"], r["version"], r["type"]
    ci.release.is_layered, ci.release.internal = r["is_layered"], r["internal"]
    if spec["base_product"]:
        b = spec["base_product"]
        ci.base_product.name, ci.base_product.short, ci.base_product.version, ci.base_product.type = \
            b["name"], b["short"], b["version"], b["type"]
    c = spec["compose"]
    ci.compose.type, ci.compose.date, ci.compose.respin = c["type"], c["date"], c["respin"]
    ci.compose.label, ci.compose.final = c["label"], c["final"]
    for v in spec["variants"]:
        _add_tree(ci, ci.variants, v)
    ci.compose.id = ci.create_compose_id() if c["id"] == "auto" else c["id"]
    return ci


def _obs_release(r, with_layered):
    out = {"name": r.name, "short": r.short, "version": r.version, "type": r.type, "internal": r.internal}
    if with_layered:
        out["is_layered"] = r.is_layered
    return out


def _obs_variant(var, key):
    paths = {}
    for cat in PATH_CATEGORIES:
        d = getattr(var.paths, cat)
        if d:
            paths[cat] = dict(d)
    out = {"id": var.id, "uid": var.uid, "name": var.name, "type": var.type, "arches": sorted(var.arches),
           "paths": paths,
           "release": _obs_release(var.release, False) if var.type == "layered-product" else None,
           "children": [_obs_variant(var.variants[k], k) for k in sorted(var.variants)],
           "_key": key, "_parent": var.parent.uid if var.parent is not None else None}
    return out


def observe(ci):
    """Everything documented, read from public attributes only."""
    out = {"release": _obs_release(ci.release, True),
           "base_product": ({"name": ci.base_product.name, "short": ci.base_product.short,
                             "version": ci.base_product.version, "type": ci.base_product.type}
                            if ci.release.is_layered else None),
           "compose": {"id": ci.compose.id, "type": ci.compose.type, "date": ci.compose.date,
                       "respin": ci.compose.respin, "label": ci.compose.label, "final": ci.compose.final},
           "variants": [_obs_variant(ci.variants.variants[k], k) for k in sorted(ci.variants.variants)]}
    return out


def expected_observation(spec, compose_id):
    """Observation the normalised spec predicts (incl. container keys and parent back-pointers)."""
    s = normalise(spec)
    s["compose"]["id"] = compose_id

    def deco(vs, parent_uid):
        for v in vs:
            v["_key"] = v["id"]
            v["_parent"] = parent_uid
            deco(v["children"], v["uid"])
    deco(s["variants"], None)
    return s


def strip_private(obs):
    o = copy.deepcopy(obs)
    for v, _, _ in walk(o["variants"]):
        v.pop("_key", None)
        v.pop("_parent", None)
    return o


# ------------------------------------------------------------------------------------------------
# edit operations (data) - applicable to specs and to live objects
# ------------------------------------------------------------------------------------------------

NAMES = ["Fedora", "Red Hat Enterprise Linux", "quote\" back\\slash\nnewline", "Näme 日本", ""]
SHORTS = ["f", "RHEL", "my-prod", ""]
VERSIONS = ["23", "7.1", "1.2.3", "Rawhide", "rawhide-1", "20160101"]
DATES = ["20160102", "00000000", "99999999"]
RESPINS = [0, 1, 12, 10 ** 7]
LABEL_VERSIONS = ["1.0", "12.34"]
PATH_VALUES = ["Some/rel/path", "", "ü/p"]


def edits(spec, seed=0, max_depth=3):
    """All single edits enabled in `spec` (simplest first)."""
    out = []
    for f, alpha in (("name", NAMES), ("short", SHORTS), ("version", VERSIONS), ("type", RELEASE_TYPES_DOC),
                     ("internal", [False, True])):
        for val in alpha:
            if spec["release"][f] != val:
                out.append(["rel", f, val])
    # layered x base product fields are coupled: crossed completely
    if spec["base_product"] is None:
        out.append(["layered", {"name": "Base", "short": "b", "version": "7", "type": "ga"}])
    else:
        out.append(["layered", None])
        for f, alpha in (("name", NAMES), ("short", SHORTS), ("version", VERSIONS), ("type", RELEASE_TYPES_DOC)):
            for val in alpha:
                if spec["base_product"][f] != val:
                    out.append(["bp", f, val])
    # compose type x date x respin: crossed completely
    for t in COMPOSE_TYPES_DOC:
        for d in DATES:
            for r in RESPINS:
                if (t, d, r) != (spec["compose"]["type"], spec["compose"]["date"], spec["compose"]["respin"]):
                    out.append(["ctriple", t, d, r])
    # label x final: crossed completely
    for lab in [None] + ["%s-%s" % (n, v) for n in LABEL_NAMES_DOC for v in LABEL_VERSIONS]:
        for fin in (False, True):
            if (lab, fin) != (spec["compose"]["label"], spec["compose"]["final"]):
                out.append(["label", lab, fin])
    for cid in ("auto", "Free form 20160102 id", "x-12345678.n.1"):
        if spec["compose"]["id"] != cid:
            out.append(["cid", cid])
    # variants
    pool = ["A", "B", "opt", "x1"]
    nodes = list(walk(spec["variants"]))
    top_ids = [v["id"] for v in spec["variants"]]
    if len(nodes) < 7:
        for vid in pool:
            if vid in top_ids:
                continue
            for arches in (["x86_64"], ["i386", "x86_64"], ["aarch64", "i386", "x86_64"]):
                for t in VARIANT_TYPES_DOC:
                    out.append(["addvar", None, vspec(vid, t, arches)])
            break
        # dashed top-level UID, childless (the documented 'Server-optional' case)
        if "Serveroptional" not in top_ids:
            out.append(["addvar", None, vspec("Serveroptional", "variant", ["x86_64"], uid="Server-optional")])
            out.append(["addvar", None, vspec("Serveroptional", "optional", ["x86_64"], uid="Server-optional")])
        for v, depth, _ in nodes:
            if depth >= max_depth or "-" in v["uid"] and depth == 1:
                continue
            ids_here = [c["id"] for c in v["children"]]
            for vid in [v["id"] + "Extras"] + pool:              # (an id that begins with the parent's own id is legal)
                if vid in ids_here:
                    continue
                subsets = [v["arches"]] if len(v["arches"]) == 1 else [v["arches"], v["arches"][:1], v["arches"][-1:]]
                for arches in subsets:
                    for t in VARIANT_TYPES_DOC:
                        out.append(["addvar", v["uid"], vspec(vid, t, arches, parent_uid=v["uid"])])
                if not vid.endswith("Extras"):
                    break
    for v, _, _ in nodes:
        foreign = [a for a in TOP_ARCHES if a not in v["arches"]][:1]
        for cat in PATH_CATEGORIES:
            for arch in v["arches"][:2] + foreign:
                for val in PATH_VALUES:
                    if v["paths"].get(cat, {}).get(arch) != val:
                        out.append(["path", v["uid"], cat, arch, val])
        out.append(["allpaths", v["uid"]])
    # the arch set of an existing variant changes (one arch more / one arch fewer; children keep a subset)
    for v, depth, _ in nodes:
        kids = set(a for c in v["children"] for a in c["arches"])
        for a in v["arches"]:
            if len(v["arches"]) > 1 and a not in kids:
                out.append(["arches", v["uid"], [x for x in v["arches"] if x != a]])
        if depth == 1:
            for a in TOP_ARCHES:
                if a not in v["arches"]:
                    out.append(["arches", v["uid"], sorted(v["arches"] + [a])])
                    # ... and one arch EXCHANGED for another (the set keeps its size)
                    for old in v["arches"]:
                        if old not in kids:
                            out.append(["arches", v["uid"], sorted([x for x in v["arches"] if x != old] + [a])])
                            break
                    break
    # a childless variant is taken out of the forest again
    for v, depth, _ in nodes:
        if not v["children"] and len(nodes) > 1:
            out.append(["delvar", v["uid"]])
    return out


def apply_spec(spec, e):
    s = copy.deepcopy(spec)
    k = e[0]
    if k == "rel":
        s["release"][e[1]] = e[2]
    elif k == "bp":
        s["base_product"][e[1]] = e[2]
    elif k == "layered":
        s["release"]["is_layered"] = e[1] is not None
        s["base_product"] = copy.deepcopy(e[1])
    elif k == "ctriple":
        s["compose"]["type"], s["compose"]["date"], s["compose"]["respin"] = e[1], e[2], e[3]
    elif k == "label":
        s["compose"]["label"], s["compose"]["final"] = e[1], e[2]
    elif k == "cid":
        s["compose"]["id"] = e[1]
    elif k == "addvar":
        (s["variants"] if e[1] is None else find(s, e[1])["children"]).append(copy.deepcopy(e[2]))
    elif k == "path":
        find(s, e[1])["paths"].setdefault(e[2], {})[e[3]] = e[4]
    elif k == "allpaths":
        v = find(s, e[1])
        for cat in PATH_CATEGORIES:
            for a in v["arches"]:
                v["paths"].setdefault(cat, {})[a] = "%s/%s/%s" % (v["uid"], a, cat)
    elif k == "arches":
        find(s, e[1])["arches"] = list(e[2])
    elif k == "delvar":
        def drop(vs):
            for i, v in enumerate(vs):
                if v["uid"] == e[1]:
                    del vs[i]
                    return True
                if drop(v["children"]):
                    return True
            return False
        drop(s["variants"])
    else:
        raise ValueError(e)
    return s


def apply_obj(ci, e, spec_after):
    """The same edit on a live ComposeInfo (e.g. one that was just re-read from a file)."""
    k = e[0]
    if k == "rel":
        setattr(ci.release, e[1], e[2])
    elif k == "bp":
        setattr(ci.base_product, e[1], e[2])
    elif k == "layered":
        ci.release.is_layered = e[1] is not None
        if e[1]:
            for f, val in e[1].items():
                setattr(ci.base_product, f, val)
    elif k == "ctriple":
        ci.compose.type, ci.compose.date, ci.compose.respin = e[1], e[2], e[3]
    elif k == "label":
        ci.compose.label, ci.compose.final = e[1], e[2]
    elif k == "cid":
        pass
    elif k == "addvar":
        _add_tree(ci, ci.variants if e[1] is None else ci[e[1]], e[2])
    elif k == "path":
        getattr(ci[e[1]].paths, e[2])[e[3]] = e[4]
    elif k == "allpaths":
        var = ci[e[1]]
        for cat in PATH_CATEGORIES:
            for a in sorted(var.arches):
                getattr(var.paths, cat)[a] = "%s/%s/%s" % (var.uid, a, cat)
    elif k == "arches":
        ci[e[1]].arches = set(e[2])
    elif k == "delvar":
        var = ci[e[1]]                                   # (looked up by UID, as a caller holding a UID would)
        box = var.parent if var.parent is not None else ci.variants
        key = [x for x in box if box.variants[x] is var][0]
        del box[key]
    if spec_after["compose"]["id"] == "auto":
        ci.compose.id = ci.create_compose_id()
    else:
        ci.compose.id = spec_after["compose"]["id"]
