"""Treeinfo: specs, builder through the public API, observer, edit operations.

spec = {"release": {name, short, version, is_layered}, "base_product": None | {name, short, version},
        "tree": {arch, build_timestamp, platforms [..]},
        "variants": [variant], "images": {platform: {name: path}}, "stage2": {mainimage, instimage},
        "media": None | {discnum, totaldiscs}, "checksums": {path: [type, value]}, "main_variant": None | uid}
variant = {id, uid, name, type, paths {kind: value}, children [variant]}
"""
import copy
import io
import json

PATH_KINDS = ["packages", "repository", "source_packages", "source_repository", "debug_packages", "debug_repository",
              "identity"]
VARIANT_TYPES_DOC = ["variant", "optional", "addon"]


def vspec(vid, vtype="variant", parent_uid=None, uid=None, name=None, paths=None, children=None):
    if uid is None:
        uid = vid if parent_uid is None else "%s-%s" % (parent_uid, vid)
    return {"id": vid, "uid": uid, "name": name or ("%s name" % uid), "type": vtype,
            "paths": dict(paths or {}), "children": children or []}


def seed_flat():
    return {"release": {"name": "Fedora", "short": "F", "version": "21", "is_layered": False},
            "base_product": None,
            "tree": {"arch": "x86_64", "build_timestamp": 1417653911, "platforms": ["x86_64", "xen"]},
            "variants": [vspec("Server", paths={"packages": "Packages", "repository": "."})],
            "images": {"x86_64": {"boot.iso": "images/boot.iso", "kernel": "images/pxeboot/vmlinuz"},
                       "xen": {"kernel": "images/pxeboot/vmlinuz"}},
            "stage2": {"mainimage": "LiveOS/squashfs.img", "instimage": None},
            "media": None,
            "checksums": {"images/boot.iso": ["sha256", "a" * 64]},
            "main_variant": None}


def seed_src():
    s = seed_flat()
    s["tree"] = {"arch": "src", "build_timestamp": 1, "platforms": ["src"]}
    s["variants"] = [vspec("Server", paths={"source_packages": "Packages", "source_repository": "."})]
    s["images"] = {}
    s["stage2"] = {"mainimage": None, "instimage": None}
    s["checksums"] = {}
    return s


def seed_layered():
    s = seed_flat()
    s["release"] = {"name": "Spacewalk", "short": "Spacewalk", "version": "2.1", "is_layered": True}
    s["base_product"] = {"name": "Fedora", "short": "F", "version": "21"}
    s["media"] = {"discnum": 2, "totaldiscs": 3}
    s["images"] = {}
    s["checksums"] = {"repodata/repomd.xml": ["sha256", "b" * 64], "Mixed.Case/File Name": ["md5", "c" * 32]}
    return s


def seed_nested():
    s = seed_flat()
    gc = vspec("extra", "addon", parent_uid="Server-optional", paths={"packages": "e/Packages"})
    opt = vspec("optional", "optional", parent_uid="Server", paths={"packages": "o/Packages", "repository": "o"},
                children=[gc])
    ha = vspec("HA", "addon", parent_uid="Server", paths={"packages": "addons/HA", "repository": "addons/HA",
                                                          "identity": "addons/HA/HA.pem"})
    s["variants"] = [vspec("Server", paths={"packages": "Packages", "repository": ".", "debug_packages": "debug/Packages"},
                           children=[opt, ha]),
                     vspec("Client", paths={"packages": "Client/Packages", "repository": "Client"})]
    # a platform whose name has a dash, next to the platform it begins with
    s["tree"]["platforms"] = sorted(set(s["tree"]["platforms"]) | {"xen", "xen-hvm"})
    s["images"] = dict(s["images"], **{"xen-hvm": {"kernel": "images/pxeboot/vmlinuz-hvm"}})
    s["images"].setdefault("xen", {"kernel": "images/pxeboot/vmlinuz-xen"})
    return s


def seed_optional_tree():
    """The documented Server-optional tree: its only top-level variant has a UID that differs from its id."""
    s = seed_flat()
    s["variants"] = [vspec("optional", "optional", uid="Server-optional",
                           paths={"packages": "Packages", "repository": ".", "debug_repository": "debug"})]
    s["images"] = {}
    s["stage2"] = {"mainimage": None, "instimage": None}
    s["checksums"] = {"repodata/repomd.xml": ["sha256", "e" * 64]}
    return s


SEEDS = [("flat", seed_flat), ("src", seed_src), ("layered", seed_layered), ("nested", seed_nested),
         ("optional-tree", seed_optional_tree)]


def walk(variants, depth=1, parent=None):
    for v in variants:
        yield v, depth, parent
        for x in walk(v["children"], depth + 1, v):
            yield x


def find(spec, uid):
    for v, _, _ in walk(spec["variants"]):
        if v["uid"] == uid:
            return v
    raise KeyError(uid)


def _sorted_variants(s):
    def srt(vs):
        vs.sort(key=lambda v: v["uid"])
        for v in vs:
            srt(v["children"])
    srt(s["variants"])
    return s


def canon(spec):
    s = _sorted_variants(copy.deepcopy(spec))
    s["tree"]["platforms"] = sorted(s["tree"]["platforms"])
    return json.dumps(s, sort_keys=True)


def normalise(spec):
    """What a write/read cycle is expected to give back (documented normalisations only)."""
    s = _sorted_variants(copy.deepcopy(spec))
    s["tree"]["platforms"] = sorted(set(s["tree"]["platforms"]) | {s["tree"]["arch"]})
    # (the build timestamp comes back as the number that was written: an integer as an integer, a float as that float)
    if not s["release"]["is_layered"]:
        s["base_product"] = None
    if s["media"] is not None and s["media"]["discnum"] is None and s["media"]["totaldiscs"] is None:
        s["media"] = None
    s["stage2"] = {k: (v or None) for k, v in s["stage2"].items()}
    s["images"] = {p: dict(t) for p, t in s["images"].items()}
    s.pop("main_variant")
    s.pop("raw_checksums", None)
    return s


def _mk_variant(ti, v):
    import productmd.treeinfo as pt
    var = pt.Variant(ti)
    var.id, var.uid, var.name, var.type = v["id"], v["uid"], v["name"], v["type"]
    for k, val in v["paths"].items():
        setattr(var.paths, k, val)
    return var


def _add_tree(ti, container, v, owner=None):
    var = _mk_variant(owner or ti, v)           # (owner: the variant object was made for ANOTHER tree and is added to this one)
    if container is ti.variants and v["id"] in container.variants:
        container.add(var, variant_id=v["uid"])  # a second top-level variant with this id: registered under its UID, as the reader does
    else:
        container.add(var)
    for c in v["children"]:
        _add_tree(ti, var, c, owner)
    return var


def build(spec, _pollute=True, _owner=None):
    if _pollute:
        # an unrelated object of the same classes is built first: class- or module-level state must not leak into this one
        build(seed_layered(), _pollute=False)
    import productmd.treeinfo as pt
    ti = pt.TreeInfo()
    r = spec["release"]
    ti.release.name, ti.release.short, ti.release.version, ti.release.is_layered = r["name"], r["short"], r["version"], r["is_layered"]
    if spec["base_product"]:
        b = spec["base_product"]
        ti.base_product.name, ti.base_product.short, ti.base_product.version = b["name"], b["short"], b["version"]
    t = spec["tree"]
    ti.tree.arch, ti.tree.build_timestamp = t["arch"], t["build_timestamp"]
    ti.tree.platforms = set(t["platforms"])
    for v in spec["variants"]:
        _add_tree(ti, ti.variants, v, owner=_owner)
    for platform, table in spec["images"].items():
        ti.images.images[platform] = dict(table)
    ti.stage2.mainimage, ti.stage2.instimage = spec["stage2"]["mainimage"], spec["stage2"]["instimage"]
    if spec["media"]:
        ti.media.discnum, ti.media.totaldiscs = spec["media"]["discnum"], spec["media"]["totaldiscs"]
    for path, (ctype, value) in spec["checksums"].items():
        if path in spec.get("raw_checksums", []):
            ti.checksums.checksums[path] = [ctype, value]          # set directly in the public mapping, spelling kept
        else:
            ti.checksums.add(path, ctype, value)
    return ti


def dumps(ti, main_variant=None):
    out = io.StringIO()
    ti.dump(out, main_variant=main_variant)
    return out.getvalue()


def _obs_variant(var):
    return {"id": var.id, "uid": var.uid, "name": var.name, "type": var.type,
            "paths": {k: getattr(var.paths, k) for k in PATH_KINDS if getattr(var.paths, k) is not None},
            "_parent": var.parent.uid if var.parent is not None else None,
            "children": sorted((_obs_variant(c) for c in var.variants.values()), key=lambda d: d["uid"])}


def observe(ti):
    return {"release": {"name": ti.release.name, "short": ti.release.short, "version": ti.release.version,
                        "is_layered": ti.release.is_layered},
            "base_product": ({"name": ti.base_product.name, "short": ti.base_product.short,
                              "version": ti.base_product.version} if ti.release.is_layered else None),
            "tree": {"arch": ti.tree.arch, "build_timestamp": ti.tree.build_timestamp,
                     "platforms": sorted(ti.tree.platforms)},
            "variants": sorted((_obs_variant(v) for v in ti.variants.variants.values()), key=lambda d: d["uid"]),
            "images": {p: dict(t) for p, t in ti.images.images.items()},
            "stage2": {"mainimage": ti.stage2.mainimage, "instimage": ti.stage2.instimage},
            "media": ({"discnum": ti.media.discnum, "totaldiscs": ti.media.totaldiscs}
                      if (ti.media.discnum is not None or ti.media.totaldiscs is not None) else None),
            "checksums": {p: list(v) for p, v in ti.checksums.checksums.items()}}


def expected_observation(spec):
    s = normalise(spec)

    def deco(vs, parent_uid):
        for v in vs:
            v["_parent"] = parent_uid
            v["paths"] = {k: val for k, val in v["paths"].items() if val is not None}
            deco(v["children"], v["uid"])
    deco(s["variants"], None)
    return s


# ------------------------------------------------------------------------------------------------
# edits
# ------------------------------------------------------------------------------------------------

TEXTS = ["Fedora", "Red Hat  Enterprise Linux", "MiXed Case", "Näme 日本", "a=b:c #d ;e [f]", "100% %(name)s %%",
         # one line for a file reader (only \n ends a line), several for str.splitlines()
         "Fedora\u2028 21", "a\x0cb\x1cc\x85d"]
VERSIONS = ["21", "7.0", "2.1.3", "Rawhide"]
TIMESTAMPS = [1, 123456, 2 ** 33]
PLATFORM_POOL = ["xen", "efi", "ppc64le", "xen-hvm"]
OPTION_NAMES = ["kernel", "Mixed.Case", "dir/with space.img"]
PATH_VALUES = ["Some/Packages", "", ".", "../../appstream/x86_64/", "./Packages/", "repo/Server"]
DIGESTS = {"md5": "1" * 32, "sha1": "2" * 40, "sha256": "3" * 64, "sha512": "4" * 128}


def edits(spec, seed=0, max_depth=3, with_float=False, with_main=False):
    out = []
    for f, alpha in (("name", TEXTS), ("short", TEXTS + [""]), ("version", VERSIONS)):
        for val in alpha:
            if spec["release"][f] != val:
                out.append(["rel", f, val])
    if spec["base_product"] is None:
        out.append(["layered", {"name": "Base OS", "short": "BOS", "version": "7"}])
    else:
        out.append(["layered", None])
        for f, alpha in (("name", TEXTS), ("short", TEXTS + [""]), ("version", VERSIONS)):
            for val in alpha:
                if spec["base_product"][f] != val:
                    out.append(["bp", f, val])
    for a in ("x86_64", "src", "aarch64"):
        if spec["tree"]["arch"] != a and not spec["images"]:
            out.append(["arch", a])
    for t in TIMESTAMPS + [1417653911.75, 0.5, -1, -5.5, 5.0, 1e22]:
        if spec["tree"]["build_timestamp"] != t:
            out.append(["timestamp", t])
    for p in PLATFORM_POOL:
        if p not in spec["tree"]["platforms"]:
            out.append(["platform+", p])
    for p in spec["tree"]["platforms"]:
        if p not in spec["images"]:
            out.append(["platform-", p])          # (also the arch itself: the writer always lists it)
    # variants
    nodes = list(walk(spec["variants"]))
    top_ids = [v["id"] for v in spec["variants"]]
    top_uids = [v["uid"] for v in spec["variants"]]
    if len(nodes) < 7:
        offered = 0
        for vid in ("A", "Workstation", "B"):
            if vid not in top_ids and offered < (2 if len(top_ids) < 3 else 1):
                out.append(["addvar", None, vspec(vid, "variant", paths={"packages": "%s/Packages" % vid, "repository": vid})])
                if not offered:
                    out.append(["addvar", None, vspec(vid, "variant")])
                offered += 1
        if "Server-optional" not in [v["uid"] for v, _, _ in nodes] and "optional" not in top_ids:
            out.append(["addvar", None, vspec("optional", "optional", uid="Server-optional",
                                              paths={"packages": "opt/Packages", "repository": "opt"})])
        # a top-level variant named like the id of somebody's child (its sections must not be mixed up with the child's)
        done = set()
        for v, depth, _ in nodes:
            # (one for a child kept in an [addon-...] section and one for a child kept in a [variant-...] section)
            if depth == 2 and v["id"] not in top_ids and v["id"] not in top_uids and v["id"].isalnum() and (v["type"] == "addon") not in done:
                done.add(v["type"] == "addon")
                out.append(["addvar", None, vspec(v["id"], "variant", paths={"packages": "top-%s/Packages" % v["id"], "repository": "top-%s" % v["id"],
                                                                              "identity": "top-%s/id.pem" % v["id"]})])
        if "Server-optional" in top_uids and "Client-optional" not in top_uids:
            # a second top-level variant with the SAME id: only their UIDs tell them apart
            out.append(["addvar", None, vspec("optional", "optional", uid="Client-optional",
                                              paths={"packages": "copt/Packages", "repository": "copt"})])
        for v, depth, _ in nodes:
            if depth >= max_depth or ("-" in v["uid"] and depth == 1):
                continue
            ids_here = [c["id"] for c in v["children"]]
            for vid in ("x", "y1"):
                if vid in ids_here:
                    continue
                for t in VARIANT_TYPES_DOC:
                    out.append(["addvar", v["uid"], vspec(vid, t, parent_uid=v["uid"], paths={"packages": "p/%s" % vid})])
                break
    for v, _, _ in nodes:
        for kind in PATH_KINDS:
            for val in PATH_VALUES + [None]:
                if v["paths"].get(kind) != val:
                    out.append(["path", v["uid"], kind, val])
    # image tables
    for p in sorted(set(spec["tree"]["platforms"]) | {spec["tree"]["arch"]}):
        for name in OPTION_NAMES:
            if name not in spec["images"].get(p, {}):
                out.append(["image", p, name, "images/%s" % name.replace(" ", "_")])
    for mi, ii in ((None, None), ("LiveOS/squashfs.img", None), (None, "images/inst.img"), ("images/install.img", "images/inst.img")):
        if (spec["stage2"]["mainimage"], spec["stage2"]["instimage"]) != (mi, ii):
            out.append(["stage2", mi, ii])
    for m in (None, {"discnum": 1, "totaldiscs": 1}, {"discnum": 2, "totaldiscs": 3}, {"discnum": 2, "totaldiscs": 2},
              # half-set numbering: written as given or refused, never dropped silently (both unset/zero = no media section)
              {"discnum": 0, "totaldiscs": 3}, {"discnum": 2, "totaldiscs": 0}, {"discnum": 1, "totaldiscs": None},
              {"discnum": None, "totaldiscs": 2}, {"discnum": 0, "totaldiscs": 0}):
        if spec["media"] != m:
            out.append(["media", m])
    if len(spec["checksums"]) < 3:
        for name in ["repodata/repomd.xml"] + OPTION_NAMES:
            if name not in spec["checksums"]:
                for ctype in ("md5", "sha1", "sha256", "sha512"):
                    out.append(["checksum", name, ctype, DIGESTS[ctype]])
                break
    for p in list(spec["checksums"])[:1]:
        out.append(["checksum-", p])
    for name in ("./repodata/repomd.xml", "a//b/../c.img"):
        if name not in spec["checksums"]:
            out.append(["checksum-raw", name, "sha256", DIGESTS["sha256"]])
    if with_main:
        for uid in [None] + top_uids:
            if spec["main_variant"] != uid:
                out.append(["main", uid])
    return out


def apply_spec(spec, e):
    s = copy.deepcopy(spec)
    k = e[0]
    if k == "rel":
        s["release"][e[1]] = e[2]
    elif k == "bp":
        s["base_product"][e[1]] = e[2]
    elif k == "layered":
        s["release"]["is_layered"] = e[1] is not None
        s["base_product"] = copy.deepcopy(e[1])
    elif k == "arch":
        old = s["tree"]["arch"]
        s["tree"]["arch"] = e[1]
        s["tree"]["platforms"] = [e[1] if p == old else p for p in s["tree"]["platforms"]]
    elif k == "timestamp":
        s["tree"]["build_timestamp"] = e[1]
    elif k == "platform+":
        s["tree"]["platforms"].append(e[1])
    elif k == "platform-":
        s["tree"]["platforms"].remove(e[1])
    elif k == "addvar":
        (s["variants"] if e[1] is None else find(s, e[1])["children"]).append(copy.deepcopy(e[2]))
    elif k == "path":
        find(s, e[1])["paths"][e[2]] = e[3]
    elif k == "image":
        s["images"].setdefault(e[1], {})[e[2]] = e[3]
    elif k == "stage2":
        s["stage2"] = {"mainimage": e[1], "instimage": e[2]}
    elif k == "media":
        s["media"] = copy.deepcopy(e[1])
    elif k == "checksum":
        s["checksums"][e[1]] = [e[2], e[3]]
    elif k == "checksum-":
        del s["checksums"][e[1]]
    elif k == "checksum-raw":
        s["checksums"][e[1]] = [e[2], e[3]]
        s.setdefault("raw_checksums", []).append(e[1])
    elif k == "main":
        s["main_variant"] = e[1]
    else:
        raise ValueError(e)
    return s


def apply_obj(ti, e):
    """The same edit on a live (re-read) TreeInfo."""
    k = e[0]
    if k == "rel":
        setattr(ti.release, e[1], e[2])
    elif k == "bp":
        setattr(ti.base_product, e[1], e[2])
    elif k == "layered":
        ti.release.is_layered = e[1] is not None
        if e[1]:
            for f, val in e[1].items():
                setattr(ti.base_product, f, val)
    elif k == "arch":
        old = ti.tree.arch
        ti.tree.arch = e[1]
        ti.tree.platforms = set(e[1] if p == old else p for p in ti.tree.platforms)
    elif k == "timestamp":
        ti.tree.build_timestamp = e[1]
    elif k == "platform+":
        ti.tree.platforms.add(e[1])
    elif k == "platform-":
        ti.tree.platforms.discard(e[1])
    elif k == "addvar":
        _add_tree(ti, ti.variants if e[1] is None else ti[e[1]], e[2])
    elif k == "path":
        setattr(ti[e[1]].paths, e[2], e[3])
    elif k == "image":
        ti.images.images.setdefault(e[1], {})[e[2]] = e[3]
    elif k == "stage2":
        ti.stage2.mainimage, ti.stage2.instimage = e[1], e[2]
    elif k == "media":
        ti.media.discnum, ti.media.totaldiscs = (e[1]["discnum"], e[1]["totaldiscs"]) if e[1] else (None, None)
    elif k == "checksum":
        ti.checksums.add(e[1], e[2], e[3])
    elif k == "checksum-":
        del ti.checksums.checksums[e[1]]
    elif k == "checksum-raw":
        ti.checksums.checksums[e[1]] = [e[2], e[3]]
