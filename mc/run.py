import sys
from mc.core.runner import main

if __name__ == "__main__":
    sys.exit(main())
