#!/bin/sh
# tools/try_seed.sh <dir with patch.diff [demo.py]> <tier> <check id>...
# Applies the patch to a scratch worktree of /repo HEAD, runs the baseline tests, the demo and the named
# checks against that worktree (VERIF_REPO_ROOT), then removes the worktree.  /repo itself is never touched.
d=$(cd "$1" && pwd); tier=$2; shift 2
wt=/tmp/wt/try-$$
git -C /repo worktree add -f "$wt" HEAD >/dev/null 2>&1 || exit 2
trap 'git -C /repo worktree remove --force "$wt" >/dev/null 2>&1; rm -rf /tmp/tryout-$$' EXIT
if ! git -C "$wt" apply "$d/patch.diff"; then echo "PATCH DOES NOT APPLY"; exit 2; fi
echo "== baseline tests with patch:"; (cd "$wt" && PYTHONPATH="$wt" /venv/bin/python -m pytest -q -p no:cacheprovider tests 2>&1 | tail -1)
if [ -f "$d/demo.py" ]; then
  (cd /tmp && PYTHONPATH="$wt" timeout 300 /venv/bin/python "$d/demo.py" >/dev/null 2>&1); echo "== demo with patch: exit $?"
  (cd /tmp && PYTHONPATH=/repo timeout 300 /venv/bin/python "$d/demo.py" >/dev/null 2>&1); echo "== demo on /repo HEAD: exit $?"
fi
for id in "$@"; do
  echo "== check $id ($tier) against patched tree:"
  VERIF_REPO_ROOT="$wt" VERIF_OUT_DIR=/tmp/tryout-$$ timeout 3600 /verif/check "$id" --tier "$tier" 2>&1 | grep -E "VIOLATION|KNOWN-FINDING|HARNESS|NONDET|exit [0-9]|^  \[" | cut -c1-400
done
