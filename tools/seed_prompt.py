#!/usr/bin/env python3
"""Prints the prompt given to an independent sub-agent that seeds a property-breaking change."""
import json, sys
pid = sys.argv[1]
n = sys.argv[2] if len(sys.argv) > 2 else "2"
p = [json.loads(l) for l in open('/verif/properties.jsonl') if json.loads(l)['id'] == pid][0]
wt = "/tmp/wt/%s" % pid
out = "/tmp/seedout/%s" % pid
print(f"""You are working on the pure-Python library `productmd` (Fedora/RHEL compose metadata: composeinfo/images/rpms/modules JSON, .treeinfo INI, .discinfo).
Your private scratch checkout (a git worktree) is at {wt}. Work ONLY inside {wt} and {out}/ . Do NOT read, list or modify /verif or /repo, and do not use any other directory under /tmp/wt or /tmp/seedout.

IMPORTANT about running code: /venv/bin/python has an editable install that points at /repo, so to exercise YOUR checkout you must always set PYTHONPATH={wt} (verify once with: cd /tmp && PYTHONPATH={wt} /venv/bin/python -c 'import productmd; print(productmd.__file__)').
The existing test suite is run with:  cd {wt} && PYTHONPATH={wt} /venv/bin/python -m pytest -q -p no:cacheprovider tests     (90 tests, ~2 s). There is no network. Wrap ad-hoc probes in `timeout 120`.

Here is a semantic property that the library is supposed to satisfy:

TITLE: {p['title']}
STATEMENT: {p['statement']}
QUANTIFIER: {p['quantifier']['text']}
CODE ANCHORS: {', '.join(m['name'] + ' (' + m['where'] + ')' for m in p['anchors']['mechanism'])}

YOUR TASK: produce {n} DIFFERENT, independent, realistic changes to the library source under {wt}/productmd (never the tests) each of which BREAKS this property while the code still imports and the COMPLETE existing test suite still passes (all 90 tests). "Realistic" = a slip a maintainer could plausibly commit (refactoring slip, off-by-one, wrong default, dropped sort/normalisation, a check moved after a mutation, a missed branch, an attribute forgotten in one of two cooperating places, changed regex greediness...). Prefer changes that need something SPECIFIC to manifest - a particular multi-step sequence of operations, an unusual-but-legal input, a particular position in a structure, or two cooperating sites that each look fine alone - NOT something any ordinary use would expose immediately. Small diffs (1-10 lines) are best. Do not add sabotage that keys on magic strings; the bug must look like an honest mistake.

For each change k (k = 1..{n}) deliver in {out}/k/ :
  - patch.diff : output of `git -C {wt} diff` for that change alone (must apply to a clean checkout with `git apply`).
  - demo.py    : a standalone script, run as `cd /tmp && PYTHONPATH=<tree> /venv/bin/python demo.py`, that exits 0 on the UNCHANGED tree and exits non-zero (failed assertion) on the CHANGED tree, demonstrating the violation of the property as stated above (assert about the property, not about implementation details). It must only use the public API of productmd and temp dirs it cleans up.
  - notes.md   : what the change is, why it breaks the property, what specific circumstances it needs to manifest, and exactly what you ran with results: (a) test suite with the change: N passed; (b) demo.py with the change: fails (show the assertion); (c) demo.py without the change: passes.
Verify all three of (a), (b), (c) yourself for every change. Between changes restore the checkout with `git -C {wt} checkout -- .` and leave it clean at the end. Your final message should just list the changes (one line each) and confirm the verification results.""")
