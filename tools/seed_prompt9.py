#!/usr/bin/env python3
"""tools/seed_prompt9.py <property id> <n> <wave dir name, e.g. 9>
Prompt for a later-wave sub-agent: the property text, its own scratch worktree, the one-line descriptions of everything
that was already tried for this property (so that it writes something different) and an emphasis on changes that need
a multi-step history or two cooperating sites.  Nothing else from /verif is handed over."""
import glob, json, os, sys
pid, n, wave = sys.argv[1], sys.argv[2], sys.argv[3]
p = [json.loads(l) for l in open('/verif/properties.jsonl') if json.loads(l)['id'] == pid][0]
wt = "/tmp/wt%s/%s" % (wave, pid)
out = "/tmp/seedout%s/%s" % (wave, pid)
tried = []
for d in sorted(glob.glob('/verif/seeded/*')) + sorted(glob.glob('/verif/seeded/neutralised/*')):
    mp = os.path.join(d, 'meta.json')
    if not os.path.exists(mp):
        continue
    m = json.load(open(mp))
    if m.get('property') != pid:
        continue
    line = ''
    np_ = os.path.join(d, 'notes.md')
    if os.path.exists(np_):
        line = open(np_).readline().strip().lstrip('# ').strip()
    if not line or len(line) < 25:
        line = (m.get('needs_to_manifest') or os.path.basename(d))
    tried.append('- ' + line[:230])
print(f"""You are working on the pure-Python library `productmd` (Fedora/RHEL compose metadata: composeinfo/images/rpms/modules JSON, .treeinfo INI, .discinfo).
Your private scratch checkout (a git worktree) is at {wt}. Work ONLY inside {wt} and {out}/ . Do NOT read, list or modify /verif or /repo, and do not use any other directory under /tmp.

IMPORTANT about running code: /venv/bin/python has an editable install that points at /repo, so to exercise YOUR checkout you must always set PYTHONPATH={wt} (verify once with: cd /tmp && PYTHONPATH={wt} /venv/bin/python -c 'import productmd; print(productmd.__file__)').
The existing test suite is run with:  cd {wt} && PYTHONPATH={wt} /venv/bin/python -m pytest -q -p no:cacheprovider tests     (90 tests, ~2 s). There is no network. Wrap ad-hoc probes in `timeout 120`.

Here is a semantic property that the library is supposed to satisfy:

TITLE: {p['title']}
STATEMENT: {p['statement']}
QUANTIFIER: {p['quantifier']['text']}
CODE ANCHORS: {', '.join(m['name'] + ' (' + m['where'] + ')' for m in p['anchors']['mechanism'])}

YOUR TASK: produce {n} DIFFERENT, independent, realistic changes to the library source under {wt}/productmd (never the tests) each of which BREAKS this property while the code still imports and the COMPLETE existing test suite still passes (all 90 tests). "Realistic" = a slip a maintainer could plausibly commit (refactoring slip, off-by-one, wrong default, dropped sort/normalisation, a check moved after a mutation, a missed branch, an attribute forgotten in one of two cooperating places, a cache/memo that is not invalidated, a helper shared between two callers with slightly different needs...). Small diffs (1-15 lines) are best. Do not add sabotage that keys on magic strings; the bug must look like an honest mistake.

THIS ROUND wants changes that are HARD to see: each change must need something SPECIFIC to manifest, preferably one of
  (a) a multi-step history: the violation only shows after a particular SEQUENCE of two or more earlier public-API calls on the same object or on other objects in the same process (e.g. load -> modify -> dump, dump twice, an add after a refused add, a second object built after a first one, a query between two mutations, the same argument object passed twice, an object moved/re-added elsewhere, copy.deepcopy / pickle of an object, ...);
  (b) two cooperating sites that each look fine alone (one site sets up a condition, another one mis-handles exactly that condition);
  (c) an unusual-but-legal input class inside the quantifier above that differs from ordinary inputs in a way the code happens to distinguish (boundary lengths, values that are falsy, equal-but-not-identical objects, strings that look like another field, the second/third element rather than the first, ...);
  (d) a code path of the anchored functions that you believe is rarely exercised (look for branches, fall-backs and legacy paths that the test suite does not reach).
A single ordinary call with an ordinary input must NOT expose it.

The following changes were ALREADY TRIED for this property by earlier rounds - do NOT repeat them or near-variants of them (different function AND different mechanism, please):
{chr(10).join(tried)}

For each change k (k = 1..{n}) deliver in {out}/k/ :
  - patch.diff : output of `git -C {wt} diff` for that change alone (must apply to a clean checkout with `git apply`).
  - demo.py    : a standalone script, run as `cd /tmp && PYTHONPATH=<tree> /venv/bin/python demo.py`, that exits 0 on the UNCHANGED tree and exits non-zero (failed assertion) on the CHANGED tree, demonstrating the violation of the property as stated above (assert about the property, not about implementation details). It must only use the public API of productmd and temp dirs it cleans up.
  - notes.md   : FIRST LINE = one-line summary "{pid} - <function> - <what the slip is>"; then what the change is, why it breaks the property, what specific circumstances it needs to manifest, and exactly what you ran with results: (a) test suite with the change: N passed; (b) demo.py with the change: fails (show the assertion); (c) demo.py without the change: passes.
Verify all three of (a), (b), (c) yourself for every change. Between changes restore the checkout with `git -C {wt} checkout -- .` (NEVER use `git stash`: the stash is shared with other people's checkouts) and leave it clean at the end. Your final message should just list the changes (one line each) and confirm the verification results.""")
