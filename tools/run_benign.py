#!/usr/bin/env python3
"""False-alarm campaign: applies property-PRESERVING changes and runs ALL checks (quick tier) against each.

For each <dir>/<k>/patch.diff : scratch worktree of /repo HEAD (outside /repo and /verif), git apply, baseline tests, all 20
checks with VERIF_REPO_ROOT=<worktree>.  Any exit status other than 0 is printed with the first report line: it is either a
false alarm of the check (to be fixed in the check) or a change that is not as harmless as its author thought (to be argued
from the property text).  The worktree is removed afterwards.  /repo itself is never touched.

usage: tools/run_benign.py <dir with */patch.diff> [--jobs N] [--only substring] [--tier quick|thorough] [--checks C01,C02]
"""
import concurrent.futures
import glob
import json
import os
import re
import subprocess
import sys
import tempfile

ALL = ["C%02d" % i for i in range(1, 21)]


def sh(cmd):
    return subprocess.run(cmd, shell=True, stdout=subprocess.PIPE, stderr=subprocess.STDOUT, universal_newlines=True)


def one(args):
    patch, tier, checks = args
    wt = tempfile.mkdtemp(prefix="benign-wt-", dir="/tmp")
    out = tempfile.mkdtemp(prefix="benign-out-", dir="/tmp")
    os.rmdir(wt)
    res = {"patch": patch, "alarms": {}}
    try:
        sh("git -C /repo worktree add -f %s HEAD" % wt)
        if sh("git -C %s apply %s" % (wt, patch)).returncode != 0:
            res["applies"] = False
            return res
        res["applies"] = True
        r = sh("cd %s && PYTHONPATH=%s /venv/bin/python -m pytest -q -p no:cacheprovider tests 2>&1 | tail -1" % (wt, wt))
        res["tests"] = r.stdout.strip().split(",")[0].replace(" in ", " ").strip()[:40]
        for pid in checks:
            env = dict(os.environ, VERIF_REPO_ROOT=wt, VERIF_OUT_DIR=out, VERIF_PROCS="4")
            p = subprocess.run(["/verif/check", pid, "--tier", tier], stdout=subprocess.PIPE, stderr=subprocess.STDOUT,
                               universal_newlines=True, env=env, timeout=7200)
            if p.returncode != 0:
                lines = [l.strip() for l in p.stdout.splitlines() if re.match(r"\s*(\[|HARNESS|NONDET|VACUOUS|Traceback)", l)]
                res["alarms"][pid] = {"exit": p.returncode, "first": (lines or [p.stdout[-300:]])[:3]}
        return res
    finally:
        sh("git -C /repo worktree remove --force %s" % wt)
        sh("rm -rf %s %s" % (wt, out))


def main():
    args = sys.argv[1:]
    root = args.pop(0)
    jobs, only, tier, checks = 4, None, "quick", ALL
    while args:
        a = args.pop(0)
        if a == "--jobs":
            jobs = int(args.pop(0))
        elif a == "--only":
            only = args.pop(0)
        elif a == "--tier":
            tier = args.pop(0)
        elif a == "--checks":
            checks = args.pop(0).split(",")
    patches = sorted(p for p in glob.glob(os.path.join(root, "**", "patch.diff"), recursive=True) if not only or only in p)
    results = []
    with concurrent.futures.ThreadPoolExecutor(jobs) as ex:
        for res in ex.map(one, [(p, tier, checks) for p in patches]):
            results.append(res)
            print("%-50s applies=%s tests=%s alarms=%s" % (res["patch"].replace(root, "").strip("/"), res.get("applies"), res.get("tests"),
                                                           {k: v["exit"] for k, v in res["alarms"].items()} or "none"), flush=True)
            for pid, a in res["alarms"].items():
                for l in a["first"]:
                    print("      %s: %s" % (pid, l[:300]), flush=True)
    if only or tier != "quick" or checks != ALL:
        return
    lines = ["# False-alarm campaign: property-preserving changes", "",
             "Changes that keep all 20 properties true, written by independent sub-agents that saw only the property texts and a scratch",
             "worktree (A-E: first wave by module; L legacy readers, I input/output layer, X validation and errors, P performance and API:",
             "second wave by theme) and by hand (M): refactorings, correct caches, reworded messages, other exception classes where the",
             "property allows several, earlier validation, extensions (new image type/format, architecture, release type, compose type,",
             "optional field), python-2 removal, reordered independent steps, atomic writes, pathlib support, retries.",
             "`tools/run_benign.py /verif/benign` applies each to a scratch worktree of /repo HEAD, runs the 90 baseline tests and ALL 20",
             "checks (quick tier).  Any non-zero exit is a false alarm to be repaired in the check (DESIGN.md sections 13 and 15a).", "",
             "| change | baseline tests | checks raising an alarm | what it is |", "|---|---|---|---|"]
    for r in sorted(results, key=lambda r: r["patch"]):
        d = os.path.dirname(r["patch"])
        t = ""
        if os.path.exists(d + "/notes.md"):
            t = open(d + "/notes.md").readline().strip().lstrip("# ").strip()
        lines.append("| %s | %s | %s | %s |" % (os.path.basename(d), r.get("tests") or "patch does not apply", ", ".join(r["alarms"]) or "none",
                                               t.replace("|", "/")[:150]))
    n = sum(1 for r in results if not r["alarms"] and r.get("applies"))
    lines += ["", "%d changes, %d without any alarm." % (len(results), n)]
    open(os.path.join(root, "REPORT.md"), "w").write("\n".join(lines) + "\n")
    print(lines[-1])


if __name__ == "__main__":
    main()
