#!/usr/bin/env python3
"""Runs every kept seeded change against the checks and rewrites /verif/seeded/REPORT.md and the detected_by fields.

For each /verif/seeded/<id>/ : scratch worktree of /repo HEAD (outside /repo and /verif), git apply patch.diff, baseline
tests, demo (if any), then the property's own check (quick; thorough if quick stays silent) plus any check already listed
in meta.json.  The worktree is removed afterwards.  /repo itself is never touched.

usage: tools/run_campaign.py [--only substring] [--jobs N]
"""
import concurrent.futures
import json
import os
import re
import subprocess
import sys
import tempfile

SEEDED = "/verif/seeded"


def sh(cmd, **kw):
    return subprocess.run(cmd, shell=True, stdout=subprocess.PIPE, stderr=subprocess.STDOUT, universal_newlines=True, **kw)


def run_check(pid, tier, wt, out):
    env = dict(os.environ, VERIF_REPO_ROOT=wt, VERIF_OUT_DIR=out, VERIF_PROCS="6")
    p = subprocess.run(["/verif/check", pid, "--tier", tier], stdout=subprocess.PIPE, stderr=subprocess.STDOUT,
                       universal_newlines=True, env=env, timeout=7200)
    viol = len(re.findall(r"^VIOLATION ", p.stdout, re.M))
    first = next((l.strip() for l in p.stdout.splitlines() if l.startswith("  [")), "")
    return p.returncode, viol, first[:260]


def one(name):
    d = os.path.join(SEEDED, name)
    meta = json.load(open(os.path.join(d, "meta.json")))
    wt = tempfile.mkdtemp(prefix="campaign-wt-", dir="/tmp")
    out = tempfile.mkdtemp(prefix="campaign-out-", dir="/tmp")
    os.rmdir(wt)
    res = {"id": name, "property": meta["property"], "checks": {}}
    try:
        r = sh("git -C /repo worktree add -f %s HEAD" % wt)
        r = sh("git -C %s apply %s/patch.diff" % (wt, d))
        if r.returncode != 0:
            res["applies"] = False
            return res
        res["applies"] = True
        r = sh("cd %s && PYTHONPATH=%s /venv/bin/python -m pytest -q -p no:cacheprovider tests 2>&1 | tail -1" % (wt, wt))
        res["tests"] = r.stdout.strip().split(",")[0].replace(" in ", " ").strip()[:40]
        if os.path.exists(os.path.join(d, "demo.py")):
            a = sh("cd /tmp && PYTHONPATH=%s timeout 300 /venv/bin/python %s/demo.py" % (wt, d)).returncode
            b = sh("cd /tmp && PYTHONPATH=/repo timeout 300 /venv/bin/python %s/demo.py" % d).returncode
            res["demo"] = "fails with patch (exit %d), passes without (exit %d)" % (a, b)
        others = [p for p in meta.get("detected_by", {}) if p != meta["property"]]
        pids = others + [meta["property"]]                 # (a neighbouring check known to catch it goes first)
        for pid in pids:
            rc, viol, first = run_check(pid, "quick", wt, out)
            tier = "quick"
            caught_elsewhere = any(c["exit"] == 1 for c in res["checks"].values())
            if rc != 1 and pid == meta["property"] and not caught_elsewhere and not meta.get("not_claimed"):
                rc, viol, first = run_check(pid, "thorough", wt, out)
                tier = "thorough"
            res["checks"][pid] = {"tier": tier, "exit": rc, "violation_lines": viol, "first": first}
        return res
    finally:
        sh("git -C /repo worktree remove --force %s" % wt)
        sh("rm -rf %s %s" % (wt, out))


def main():
    only = None
    jobs = 3
    args = sys.argv[1:]
    while args:
        a = args.pop(0)
        if a == "--only":
            only = args.pop(0)
        elif a == "--jobs":
            jobs = int(args.pop(0))
    names = sorted(n for n in os.listdir(SEEDED) if n != "neutralised" and os.path.exists(os.path.join(SEEDED, n, "meta.json")) and (not only or only in n))
    results = []
    with concurrent.futures.ThreadPoolExecutor(jobs) as ex:
        for res in ex.map(one, names):
            results.append(res)
            det = {p: c["tier"] for p, c in res["checks"].items() if c["exit"] == 1}
            print("%-55s applies=%s tests=%s detected=%s" % (res["id"], res.get("applies"), res.get("tests"), det or "NO"), flush=True)
            mp = os.path.join(SEEDED, res["id"], "meta.json")
            meta = json.load(open(mp))
            meta["detected_by"] = det
            meta["last_campaign"] = {"applies_to_repo_head": res.get("applies"), "baseline_tests_with_patch": res.get("tests"),
                                     "demo": res.get("demo"),
                                     "checks": {p: {"tier": c["tier"], "exit": c["exit"], "first_report": c["first"]} for p, c in res["checks"].items()}}
            json.dump(meta, open(mp, "w"), indent=1)
    if only:
        return
    lines = ["# Seeded-change campaign", "",
             "Every change below lives in its own directory (`patch.diff`, `demo.py` where the author supplied one, `meta.json`).",
             "`tools/run_campaign.py` applied each one to a scratch worktree of /repo HEAD, ran the 90 baseline tests, the demo and the",
             "checks with `VERIF_REPO_ROOT=<worktree>`; the worktree was removed afterwards.  `reintro-*` are the reverses of the `fix:`",
             "commits (the genuine defects of the pinned tree), `manual-*` were written by hand, all others by independent sub-agents that",
             "saw only the property text.", "",
             "| seeded change | property | baseline tests | detected by (tier) | first report |", "|---|---|---|---|---|"]
    missed = []
    unclaimed = []
    for res in results:
        det = ", ".join("%s (%s)" % (p, c["tier"]) for p, c in res["checks"].items() if c["exit"] == 1) or "**not detected**"
        if "not detected" in det:
            missed.append(res["id"])
        first = next((c["first"] for c in res["checks"].values() if c["exit"] == 1), "")
        meta = json.load(open(os.path.join(SEEDED, res["id"], "meta.json")))
        if "not detected" in det and meta.get("not_claimed"):
            det = "not detected - deliberately not claimed"
            first = meta["not_claimed"]
            missed.pop()
            unclaimed.append(res["id"])
        lines.append("| %s | %s | %s | %s | %s |" % (res["id"], res["property"], res.get("tests", "patch does not apply"), det,
                                                   first.replace("|", "/")[:160 if "not claimed" not in det else 600]))
    lines += ["", "%d changes, %d detected, %d deliberately not claimed%s, %d not detected%s."
              % (len(results), len(results) - len(missed) - len(unclaimed), len(unclaimed), (" (" + ", ".join(unclaimed) + ")") if unclaimed else "",
                 len(missed), (": " + ", ".join(missed)) if missed else "")]
    open(os.path.join(SEEDED, "REPORT.md"), "w").write("\n".join(lines) + "\n")
    print("\n".join(lines[-1:]))


if __name__ == "__main__":
    main()
