#!/bin/sh
# tools/keep_wave.sh <wave> <ID> <k> <detected_by e.g. C12:quick | none> : keeps /tmp/seedout<w>/<ID>/<k> as /verif/seeded/<ID>-w<w>-<k>-<slug>
w=$1; id=$2; k=$3; det=$4
d=/tmp/seedout$w/$id/$k
line=$(head -1 $d/notes.md | sed 's/^#* *//')
slug=$(echo "$line" | sed "s/^$id *[-:\/]* *//" | tr 'A-Z' 'a-z' | tr -c 'a-z0-9' '-' | sed 's/--*/-/g; s/^-//' | cut -c1-48 | sed 's/-$//')
/verif/tools/keep_seed.py $d "$id-w$w-$k-$slug" $id "$det" "$line"
