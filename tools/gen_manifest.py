#!/usr/bin/env python3
"""Regenerates /verif/MANIFEST.json from the table below (one entry per built check)."""
import json
import os

HERE = os.path.dirname(os.path.dirname(os.path.abspath(__file__)))

ALL = ["C%02d" % i for i in range(1, 21)]

# what wave 9 added to the explored space (DESIGN.md section 12, "added in wave 9")
_LIVE = ("  Every state is reached a third way: the parent state is built, written, validated and queried, and the last edit is made "
         "on that same live object.")
WAVE9 = {
    "C01": _LIVE + "  Edits also change the arch set of an existing variant (one more, one fewer, one exchanged) and delete a childless variant (looked up by UID first).",
    "C02": _LIVE + "  Descriptions the rules refuse today (additional variants on a non-unified image) are offered too: whatever the library agrees to write must come back.",
    "C04": _LIVE + "  A .discinfo is also read by a reader that has read another one before.",
    "C17": _LIVE,
    "C03": "  Every history is repeated with the manifest written and re-read into itself before the last add.",
    "C05": "  Another reader of the class loads and writes a current-format file before every older document; a dashed top-level variant with children (pre-1.0 prefix discovery).",
    "C06": "  Every triple is evaluated twice: on a new object and on an object that was written successfully just before the value was put in.",
    "C07": "  Before every damaged document another reader loads and writes a valid one and the reader under test is queried; values borrowed from same-named keys elsewhere in the document are tried at every position with a documented domain.",
    "C09": "  A refused add is repeated at once; documents that file one image of a colliding pair under the legacy 'src' arch.",
    "C10": "  A refused add is repeated at once and once more for another entry.",
    "C11": "  A refused add is repeated at once; an in-forest ancestor is re-added below its descendants with a re-aligned UID (only the cycle check can refuse it).",
    "C12": "  A refused call is repeated at once; every history is repeated with the manifest re-read into itself before the last call; dump_for_tree bases equal to and below a stored path.",
    "C16": "  Tables of several checksum paths filled in every order (through add() and directly), an absolute path at every position among them.",
    "C18": "  Pre-state written by the same object; destinations given as os.PathLike; dump_for_tree handed a path; non-ASCII text dumped to a path under an ASCII locale.",
    "C19": "  Growth per pump is measured in the real engine from 20 pumps on until the time guard; manifest tables nested n levels deep are structural families.",
    "C20": "  Junk header versions that do not begin with a digit.",
}

# id -> (category, technique, level text, level note, design ref)
CHECKS = {
    "C05": ("model_checking",
            "explicit-state BFS over content x older-version pairs: every state of the composeinfo/images/treeinfo universes and rpms histories is down-converted to every older version and upgraded by the real library",
            "For every state within k edits of the seeds and every older version the code distinguishes (composeinfo 0.0/0.2/0.3/0.4/"
            "0.9/1.0/1.1, images 1.0/1.1, rpms 0.3/1.0/1.1, treeinfo 0.3/1.0/1.1) a down-converter written from the format documentation "
            "produces the older document; every accepted document must expose the expected facts, be written as a current-version file "
            "with the proper type, re-load to an identical observation and re-dump byte-identically; dialects (repodata spelling, absolute "
            "roots, images-<platform>-<arch> sections, children under 'variants', a stray base_product section); all 73 fixtures under "
            "tests/ must in addition convert to the facts recorded from the repaired pinned tree (golden/c05_fixtures.json); a listed "
            "format version of which no generated document is accepted any more is a violation.",
            "Trusts mc/models/legacy.py; rejections and inexpressible shapes are counted per (format, version) and a version without any "
            "accepted document is reported; a single rejected document is outside the property; the per-product rules of the "
            "pre-productmd reader (RHEL 3-6, CentOS) are outside the alphabet.",
            "DESIGN.md section 5, C05"),
    "C06": ("exploration",
            "bounded-exhaustive single corruption of valid objects: base x every field position x every value of the field's corruption alphabet, against a reference validator table; converse over the k=1 universes",
            "Every (base object, field position, out-of-domain value) triple - all variants of a forest incl. layered-product releases, "
            "all 15 attributes of every image in every cell, all treeinfo sections, discinfo - must make dumps() raise TypeError/"
            "ValueError; conversely every state within one edit of the composeinfo/images/treeinfo seeds and every documented tree arch "
            "must be written; valid non-ASCII objects must be written under an ASCII locale (all formats to a string, the JSON formats "
            "to a path); thorough: every state within one edit of every seed is a base object.",
            "Trusts mc/models/validator_table.py (transcribed from doc/ and the property text); exactly one corrupted field per object.",
            "DESIGN.md section 5, C06"),
    "C07": ("exploration",
            "bounded-exhaustive single corruption of valid documents (value replacement, header type swap, version mangling, required key/section deletion) against the reference validator table",
            "Every validated value position of every base document of all 7 formats x its corruption alphabet, every foreign header "
            "type at 1.1/1.2/2.0, 7 mangled versions and every required key/section deletion must make loads() raise; where the reader "
            "coerces (bool/int/lower) the loaded object must be writable and carry an in-domain value at that position; every value "
            "corruption and key deletion is repeated on the document re-expressed in each older format version that carries the key; "
            "degenerate documents ({}, [], null, empty text).",
            "Trusts mc/models/validator_table.py and the required-key lists in mc/checks/c07.py; one corruption per document.",
            "DESIGN.md section 5, C07"),
    "C08": ("model_checking",
            "enumeration of all construction-order permutations of each unordered part, all iteration orders of every library-created set (shadowed `set`), real PYTHONHASHSEED values in separate interpreters, repeated dumps; independent format lint",
            "For 10 contents with >= 3 elements in every unordered part, every permutation of each part (pairs of parts in the thorough "
            "tier), 24/48 set-iteration policies while building and while loading, hash seeds 0..3/0..31 in separate interpreters and 3 "
            "successive dumps must give the bytes of the canonical-order build; treeinfo children registered under their id or their "
            "UID (all 2^n choices) likewise; the canonical file with any ONE key / option / section left out, if it loads, must dump "
            "identically three times and be a fixed point; JSON must be in sorted-keys 4-space form, INI sections and "
            "options sorted, caller-ordered lists unchanged; content reached through a re-loaded object must dump like the same content "
            "built from scratch.",
            "The set seam relies on the library looking up the global name `set`; hash seeds influence output only through hash-ordered "
            "containers (argument in DESIGN.md).",
            "DESIGN.md section 5, C08"),
    "C16": ("exploration",
            "grid of file sizes around the 1 MiB chunk x every hashlib algorithm x read schedules (one short read at every read index through a shadowed open) against hashlib one-shot digests; all ordered [checksums] sections over 9 value shapes; all add_checksum histories of depth <= 4",
            "compute_checksum must equal the one-shot digest for every size/algorithm/read schedule, each time after the same path held "
            "other content of the same size and mtime and after another file was hashed; Checksums.add must record under the "
            "normalised relative path and refuse absolute paths; every [checksums] section of <= 2 (quick) / 3 (thorough) entries must map "
            "each path to its own line's type and value or be rejected; over all 4 680 add_checksum histories a recorded value never changes "
            "and a conflicting value raises ValueError.",
            "File content is a 251-periodic pattern; the short-read seam relies on compute_checksum calling the module-level open().",
            "DESIGN.md section 5, C16"),
    "C19": ("model_checking",
            "explicit-state exploration of the product automaton of every regular expression the library uses (exponential-ambiguity criterion, all input lengths) + step-counting backtracking matcher bound to the real engine on all short strings + pumped families, suspicions confirmed in the real engine",
            "The inventory (25 patterns, recorded at run time in a fresh interpreter and by AST scan) is analysed pattern by pattern: "
            "epsilon-NFA, position graph and product automaton explored for two distinct paths over one word; a step-counting matcher agrees "
            "with re on every string of length <= 5/6 over the class alphabet (match end and all groups); all pump families up to length "
            "48; a violation is reported only when the real engine confirms super-polynomial growth or a <= 48-character input needs > 2 s; "
            "28 entry-point probes with pumped values in killable subprocesses; 11 structural document families whose loader work is "
            "counted in Python calls (doubling growth or > 2M calls for <= 1 KiB = violation); every token string of length <= 2/3 through "
            "every loader (must end within 20 000 calls, C-function calls counted for the abort); documents served as HTTP responses "
            "in 6 transfer modes; a taint run proving no document data reaches `re` as a pattern.",
            "Cost model is CPython's sre; anchors/look-arounds are epsilon in the analysis (over-approximation guarded by the real-engine "
            "confirmation); polynomial degree is reported, not judged.",
            "DESIGN.md section 5, C19"),
    "C20": ("model_checking",
            "enumeration of directory configurations (layouts x file presence under current/legacy names x trailing slash x broken file x every os.listdir permutation) and accessor sequences against a decision-list model, file opens counted through a shadowed open",
            "About 1 500 on-disk configurations are opened with the real Compose class; resolved location, source file of every accessor "
            "(each file carries a distinct compose id), equality with a direct load, object identity and zero file opens on re-access, "
            "RuntimeError texts for missing and undecodable files are compared with the model; all 84 / 340 accessor sequences of length <= "
            "3 / 4 on four configurations; the same compose opened by http:// URL from a web server that serves it, answers 404 or "
            "does not answer (6 layouts x 2 servers x slash x 2 sequences).",
            "Precedence is only stated for compose/ over the direct layout: for other coexisting layouts any location holding metadata is "
            "allowed; composes opened by URL are served by a fake urlopen (real HTTPResponse objects over an in-memory socket): "
            "direct and compose/ layouts only, as the library documents.",
            "DESIGN.md section 5, C20"),
    "C03": ("model_checking",
            "history BFS over valid add calls (rpms / modules / extra files) with a lockstep layout model; write->read->write at every reachable state against the model",
            "Every valid add from every distinct state reachable in fewer than 4 (quick) / 6 (thorough; rpms 5) calls of the C12 menus "
            "(so overwrites and repeated entries are executed, not collapsed) is replayed on a fresh real object in lockstep with the "
            "layout model; one manifest per documented architecture and builder; at every state the manifest is written, re-read "
            "into a new reader AND into a reader that has loaded another manifest before, and the re-read mapping "
            "compared with the model's mapping (so a loss shared by writer and reader is seen), compose section intact, second write "
            "byte-identical, header current.",
            "Trusts mc/models/layouts.py (written from the format docs) and the regex-free NEVRA splitter bound to the code by C13.",
            "DESIGN.md section 5, C03"),
    "C04": ("model_checking",
            "explicit-state BFS over treeinfo descriptions (deviation bound k) cycled write->read->write against the spec; complete discinfo grid",
            "All trees within k edits (quick 1, thorough 2) of five seeds (flat, src, layered+media, nested depth 3, Server-optional "
            "tree) - child variants of every type, dashed UIDs, 7 path kinds incl. '' and '.', mixed-case and blank-containing option "
            "names, several platforms, stage2/media/checksums - are built, written, re-read and compared fact by fact with the spec, "
            "second write byte-identical, also from re-loaded parents; discinfo: full grid of 9 float timestamps x all short "
            "descriptions in the domain x arches x 7 disc lists.",
            "Trusts mc/build/ti.py; '%' and platform names ending in -<arch> are outside the alphabet (DESIGN.md section 4).",
            "DESIGN.md section 5, C04"),
    "C11": ("model_checking",
            "history BFS over target.add(candidate)/reload on a real ComposeInfo in lockstep with a forest model; invariants and 110 get_variants queries per level on every state",
            "All interleavings of valid and invalid adds (duplicate id as a different object, same object again, foreign arch as first "
            "and later child, misaligned UID, ancestor under descendant, top-level under another) over an 11-variant pool up to depth "
            "5 (quick) / 8 (thorough: the model's state space closes), incl. reload; after every step the forest equals the model, "
            "refusals raise ValueError and change nothing, parent/children mirror each other, every variant is found by UID and by id.",
            "Trusts the forest model in mc/checks/c11.py; filtered get_variants results are judged for soundness (arch, type, order, "
            "no duplicates), unfiltered ones for completeness.",
            "DESIGN.md section 5, C11"),
    "C12": ("model_checking",
            "history BFS over valid and invalid add calls of Rpms/Modules/ExtraFiles in lockstep with a reference layout model; refusal => deep snapshot unchanged; dump_for_tree vs model",
            "Every history up to depth 3 (quick) / 5 (thorough) over menus with one invalid call per refusal condition (29 conditions, "
            "all required to be observed) is replayed on a fresh real object; after every call the public mapping equals the reference "
            "layout, refused calls raise ValueError/TypeError and leave the mapping unchanged; equal list arguments are the same object "
            "across calls (aliasing); dump_for_tree for 6 base-path classes at every extra-files state.",
            "Trusts mc/models/layouts.py; an empty RPM path is not a documented refusal of Rpms.add and is not in the alphabet.",
            "DESIGN.md section 5, C12"),
    "C17": ("model_checking",
            "the C04 treeinfo state space x every main-variant choice; [general] read by an independent INI reader and compared with the spec and the authoritative sections",
            "For every tree within k edits of five seeds, every main-variant choice (None and each top-level UID), float and integer "
            "timestamps: the text written by dump(main_variant=...) is parsed by an independent INI reader and [general] must equal the "
            "values the property states (computed from the spec) and the [release]/[tree]/[variant-*] sections of the same file; the "
            "compatibility section alone is loaded by the library's pre-productmd reader for plain names/paths.",
            "Trusts mc/models/ini.py (40 lines) and expected_general() in mc/checks/c17.py.",
            "DESIGN.md section 5, C17"),
    "C18": ("fault_enumeration",
            "fault enumeration: every validator invocation during dump(path) fails once (injected), for both pre-states, on 12 base objects of all 7 formats; plus real invalid nested values",
            "One instrumented dump lists all validator invocations (top-level and inside nested writers); for every index i a fresh "
            "object is dumped with the i-th invocation raising, with the destination absent and holding the previous good copy; "
            "afterwards the path must have exactly its pre-state and no other file may appear.  Exhaustive over injection points.  "
            "Plus every real invalid value of the validator table, values the file format cannot encode, text the locale cannot "
            "encode, hard-linked destinations and objects a loader refused.",
            "Validators are found by name (_validate* on MetadataBase subclasses); the check reports itself vacuous if the seam is lost.",
            "DESIGN.md section 5, C18"),
    "C01": ("model_checking",
            "explicit-state BFS over composeinfo descriptions (deviation bound k edits from seeds), each state built on the real library and cycled write->read->write against the spec as reference model",
            "All compose descriptions within k edits (quick 1, thorough 2) of four seeds - incl. depth-3 forests, layered-product "
            "variants, dashed top-level UIDs, labels, base products, all release/compose/variant types, 14 path categories - are "
            "built through the public API, written, re-read and compared field by field with the spec (not with another library "
            "output), then written again and compared byte for byte; every state is also reached from a re-loaded parent object; "
            "child ids that begin with the parent's UID, 8-digit versions, respin 0 and upper-case release types are in the alphabet.",
            "Trusts the builder/observer in mc/build/ci.py and the normalisation rules quoted from the property; text alphabets "
            "are class representatives; bounded by k and by 7 variants / depth 3.",
            "DESIGN.md section 5, C01"),
    "C02": ("model_checking",
            "explicit-state BFS over images-manifest descriptions (deviation bound k), write->read->write against the spec",
            "All manifests within k edits of three seeds (every supported type and format, null/non-null volume id and md5, 1/3 "
            "checksum types, sizes > 2^32, unified + additional variants, aliased image objects, up to 3 images per cell, initial "
            "header default/1.1/1.2) are built, written, re-read and compared attribute by attribute (all 15) and cell by cell "
            "with the spec; second write byte-identical; also from re-loaded parents, through a file handle that is written and read "
            "back, with placements taken out again and with empty manifests.",
            "Trusts mc/build/im.py; identity collisions with different checksums are excluded here (C09).",
            "DESIGN.md section 5, C02"),
    "C09": ("model_checking",
            "history BFS: all add/dumps/reload sequences up to depth d over a colliding image pool, real Images object stepped in lockstep with a reference model",
            "Every history of depth <= 3 (quick) / 4 (thorough) over 56 adds (4 cells x 14 pool images built to collide or to "
            "differ in exactly one identity attribute), dumps and reload, from 5 initial header versions, is replayed on a fresh "
            "real object and compared with the model after every step (acceptance, ValueError, unchanged manifest and cells); header "
            "version changes and document loads are operations of the history, too; "
            "every source state is also written as a 1.0/1.1/1.2 document; identify_image(object) == identify_image(dict), also after "
            "each identity attribute of an already identified and filed image was changed.",
            "Trusts the 20-line model in mc/checks/c09.py; scope reading of 'format 1.1 or later' per DESIGN.md section 4.",
            "DESIGN.md section 5, C09"),
    "C10": ("model_checking",
            "complete enumeration of small src-layout documents (images 1.0/1.1/1.2, rpms 0.3) and of add calls over arch classes, against a re-filing model",
            "All 3 x 702 images documents and all 14 520 rpms 0.3 documents with <= 2 variants over {x86_64, i386, src} are "
            "loaded by the real library three ways (new object, an object that has loaded, added and been queried before, second consumer "
            "of one parsed document) and compared with the re-filing model; no src/nosrc key may survive in mapping or dump; "
            "every add over 10 architecture classes on 3 pre-states must be accepted (binary) or refused with ValueError and no change.",
            "Trusts the re-filing model (30 lines) written from the property text; variants with only a src entry are outside the claim.",
            "DESIGN.md section 5, C10"),
    "C13": ("exploration",
            "bounded-exhaustive enumeration of a NEVRA grammar (names x epochs x versions x releases x every table arch x prefixes x .rpm)",
            "Every string of the grammar (quick: 0.8M, thorough: 13M parses) is parsed by the real parse_nvra and compared with the "
            "parts it was generated from; canonical re-formatting must be a fixed point and Rpms.add must file under the canonical key.",
            "Segment/version/release shapes are class representatives of the documented character sets.",
            "DESIGN.md section 5, C13"),
    "C15": ("exploration",
            "bounded-exhaustive encode->validate->decode grid plus complete decoder suffix table (all lowercase suffixes of length <= 3) and legacy documents",
            "Compose IDs are created by the real ComposeInfo for every point of the grid (respins at both ends of every digit length "
            "below 10^8, versions with 8/9-digit runs, all types), validated by the library's own validator and decoded back; the "
            "decoder is run on every documented suffix and on all 18 274 other suffixes of length <= 3; the id is created again after "
            "the respin was bumped; legacy 0.0/0.2 documents (loaded into a used object) must expose the triple encoded in the id.",
            "Quick tier varies one release field at a time; a suffix that decodes to a compose type the tree ADDS to COMPOSE_TYPES is "
            "counted as an extension, not as an unknown suffix.",
            "DESIGN.md section 5, C15"),
    "C14": ("exploration",
            "bounded-exhaustive string enumeration against hand-written DFAs; exhaustive create->parse grid",
            "Every string up to length 6 (quick) / 8 (thorough) over one representative per character class is run through the "
            "three predicates and all six create_release_id slots and compared with reference automata; create->parse is "
            "composed over a complete grid of shorts x versions x types (x base products).  Exhaustive within the bound, "
            "which is the right level for pure string functions with finitely many character classes.",
            "Trusts the reference DFAs in mc/models/ids.py (transcribed from the property text) and that one member per "
            "character class is representative; newline is outside the alphabet.",
            "DESIGN.md section 5, C14"),
}

PENDING_REASON = "check not built yet (planned inside the model-checking family, see DESIGN.md section 5); not claimed until it runs"


def main():
    checks = []
    for pid in ALL:
        if pid not in CHECKS:
            continue
        cat, tech, text, note, ref = CHECKS[pid]
        checks.append({
            "property_id": pid,
            "quick_cmd": "./check %s --tier quick" % pid,
            "thorough_cmd": "./check %s --tier thorough" % pid,
            "evidence_file": "/verif/evidence/%s.json" % pid,
            "replay_cmd_template": "./check %s --replay {path}" % pid,
            "engine": "mc-explorer",
            "level_claimed": {"category": cat, "text": text + WAVE9.get(pid, ""), "design_ref": ref},
            "level_note": note,
            "technique": tech,
        })
    manifest = {
        "version": 1,
        "setup_cmd": "/venv/bin/python -m compileall -q mc >/dev/null; /venv/bin/python -c \"import sys; sys.path.insert(0,'/repo'); import productmd, six; print('productmd from', productmd.__file__)\"",
        "hooks": {
            "guard": "PRODUCTMD_VERIF",
            "enable": "no source hooks exist: every seam is installed from the harness by wrapping module globals after import (DESIGN.md 3.5, 3.8)",
            "baseline_off_cmd": "cd /repo && /venv/bin/python -m pytest -ra -q -p no:cacheprovider --timeout=900 --continue-on-collection-errors",
            "source_commits": [],
            "add_only": True,
        },
        "engines": [{
            "name": "mc-explorer",
            "path": "/verif/mc",
            "serves_properties": sorted(CHECKS),
            "kind_free_text": "hand-written explicit-state / bounded-exhaustive explorer in Python driving the real productmd "
                              "code in lockstep with reference models (spec-space BFS, history BFS, environment/fault enumeration)",
        }],
        "checks": checks,
        "not_applicable": [{"property_id": p, "reason": PENDING_REASON} for p in ALL if p not in CHECKS],
        "notes": "All checks: ./check <id> [--tier quick|thorough] [--replay path]; known findings in /verif/KNOWN_FINDINGS.txt.",
    }
    with open(os.path.join(HERE, "MANIFEST.json"), "w") as f:
        json.dump(manifest, f, indent=1)
        f.write("\n")


if __name__ == "__main__":
    main()
