#!/usr/bin/env python3
"""Regenerates /verif/MANIFEST.json from the table below (one entry per built check)."""
import json
import os

HERE = os.path.dirname(os.path.dirname(os.path.abspath(__file__)))

ALL = ["C%02d" % i for i in range(1, 21)]

# id -> (category, technique, level text, level note, design ref)
CHECKS = {
    "C14": ("exploration",
            "bounded-exhaustive string enumeration against hand-written DFAs; exhaustive create->parse grid",
            "Every string up to length 6 (quick) / 8 (thorough) over one representative per character class is run through the "
            "three predicates and all six create_release_id slots and compared with reference automata; create->parse is "
            "composed over a complete grid of shorts x versions x types (x base products).  Exhaustive within the bound, "
            "which is the right level for pure string functions with finitely many character classes.",
            "Trusts the reference DFAs in mc/models/ids.py (transcribed from the property text) and that one member per "
            "character class is representative; newline is outside the alphabet.",
            "DESIGN.md section 5, C14"),
}

PENDING_REASON = "check not built yet (planned inside the model-checking family, see DESIGN.md section 5); not claimed until it runs"


def main():
    checks = []
    for pid in ALL:
        if pid not in CHECKS:
            continue
        cat, tech, text, note, ref = CHECKS[pid]
        checks.append({
            "property_id": pid,
            "quick_cmd": "./check %s --tier quick" % pid,
            "thorough_cmd": "./check %s --tier thorough" % pid,
            "evidence_file": "/verif/evidence/%s.json" % pid,
            "replay_cmd_template": "./check %s --replay {path}" % pid,
            "engine": "mc-explorer",
            "level_claimed": {"category": cat, "text": text, "design_ref": ref},
            "level_note": note,
            "technique": tech,
        })
    manifest = {
        "version": 1,
        "setup_cmd": "/venv/bin/python -m compileall -q mc >/dev/null; /venv/bin/python -c \"import sys; sys.path.insert(0,'/repo'); import productmd, six; print('productmd from', productmd.__file__)\"",
        "hooks": {
            "guard": "PRODUCTMD_VERIF",
            "enable": "no source hooks exist: every seam is installed from the harness by wrapping module globals after import (DESIGN.md 3.5, 3.8)",
            "baseline_off_cmd": "cd /repo && /venv/bin/python -m pytest -ra -q -p no:cacheprovider --timeout=900 --continue-on-collection-errors",
            "source_commits": [],
            "add_only": True,
        },
        "engines": [{
            "name": "mc-explorer",
            "path": "/verif/mc",
            "serves_properties": sorted(CHECKS),
            "kind_free_text": "hand-written explicit-state / bounded-exhaustive explorer in Python driving the real productmd "
                              "code in lockstep with reference models (spec-space BFS, history BFS, environment/fault enumeration)",
        }],
        "checks": checks,
        "not_applicable": [{"property_id": p, "reason": PENDING_REASON} for p in ALL if p not in CHECKS],
        "notes": "All checks: ./check <id> [--tier quick|thorough] [--replay path]; known findings in /verif/KNOWN_FINDINGS.txt.",
    }
    with open(os.path.join(HERE, "MANIFEST.json"), "w") as f:
        json.dump(manifest, f, indent=1)
        f.write("\n")


if __name__ == "__main__":
    main()
