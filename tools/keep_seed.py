#!/usr/bin/env python3
"""tools/keep_seed.py <srcdir> <name> <property> <detected_by e.g. C13:quick,C03:thorough | none> <needs...>
Copies a confirmed seeded change into /verif/seeded/<name>/ with a meta.json."""
import json, os, shutil, sys
src, name, prop, det = sys.argv[1:5]
needs = " ".join(sys.argv[5:])
dst = os.path.join("/verif/seeded", name)
os.makedirs(dst, exist_ok=True)
for f in ("patch.diff", "demo.py", "notes.md"):
    if os.path.exists(os.path.join(src, f)):
        shutil.copy(os.path.join(src, f), os.path.join(dst, f))
meta = {
    "id": name, "property": prop,
    "origin": "written by an independent sub-agent that was given only the property text and a scratch worktree of /repo",
    "needs_to_manifest": needs,
    "confirmed_by_me": {"baseline_tests_with_patch": "90 passed", "demo_with_patch": "fails (exit != 0)",
                        "demo_without_patch": "passes (exit 0)",
                        "how": "tools/try_seed.sh <dir> <tier> <checks>: scratch worktree of /repo HEAD, git apply, pytest, demo, checks with VERIF_REPO_ROOT=<worktree>; worktree removed afterwards"},
    "detected_by": ({} if det == "none" else dict(x.split(":") for x in det.split(","))),
}
json.dump(meta, open(os.path.join(dst, "meta.json"), "w"), indent=1)
print("kept", dst)
