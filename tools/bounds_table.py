#!/usr/bin/env python3
"""Prints a markdown table of the measured sizes in /verif/evidence/*.json (for DESIGN.md section 11)."""
import json, glob, os
print("| id | tier | evaluations | states | transitions | distinct non-trivial | outcomes | wall (s) |")
print("|---|---|---|---|---|---|---|---|")
for f in sorted(glob.glob("/verif/evidence/C*.json")):
    e = json.load(open(f)); c = e["coverage"]
    print("| %s | %s | %s | %s | %s | %s | %s | %s |" % (e["property_id"], e["tier"], c.get("evaluations"), c.get("states", "-"), c.get("transitions", "-"),
                                                     c.get("distinct_nontrivial"), c.get("distinct_outcomes"), e["wall_s"]))
