#!/usr/bin/env python3
"""Mechanical mutation pass: every _validate_* method of productmd is disabled in turn (body -> pass).

For each mutant: scratch worktree of /repo HEAD (outside /repo and /verif), baseline tests, then the checks named on the command
line (default C06 C07) with VERIF_REPO_ROOT=<worktree>.  A mutant that passes the baseline tests and is reported by no check is
either a gap or a validator no property covers; the list is printed at the end.  /repo itself is never touched.

usage: tools/mutate_validators.py [--checks C06,C07] [--only substring] [--jobs N]
"""
import ast
import concurrent.futures
import glob
import os
import subprocess
import sys
import tempfile


def sh(cmd, **kw):
    return subprocess.run(cmd, shell=True, stdout=subprocess.PIPE, stderr=subprocess.STDOUT, universal_newlines=True, **kw)


def validators():
    out = []
    for f in sorted(glob.glob("/repo/productmd/*.py")):
        tree = ast.parse(open(f).read())
        for cls in [n for n in ast.walk(tree) if isinstance(n, ast.ClassDef)]:
            for fn in cls.body:
                if isinstance(fn, ast.FunctionDef) and fn.name.startswith("_validate"):
                    out.append((os.path.basename(f), cls.name, fn.name, fn.body[0].lineno, fn.end_lineno, fn.col_offset))
    return out


def one(args):
    (fname, cls, meth, first, last, col), checks = args
    wt = tempfile.mkdtemp(prefix="mut-wt-", dir="/tmp")
    out = tempfile.mkdtemp(prefix="mut-out-", dir="/tmp")
    os.rmdir(wt)
    res = {"mutant": "%s:%s.%s" % (fname, cls, meth), "detected": {}}
    try:
        sh("git -C /repo worktree add -f %s HEAD" % wt)
        path = os.path.join(wt, "productmd", fname)
        lines = open(path).read().split("\n")
        lines[first - 1:last] = [" " * (col + 4) + "pass"]
        open(path, "w").write("\n".join(lines))
        r = sh("cd %s && PYTHONPATH=%s /venv/bin/python -m pytest -q -x -p no:cacheprovider tests 2>&1 | tail -1" % (wt, wt))
        res["tests"] = r.stdout.strip().split(" in ")[0][:40]
        if "failed" in res["tests"] or "error" in res["tests"]:
            return res
        for pid in checks:
            env = dict(os.environ, VERIF_REPO_ROOT=wt, VERIF_OUT_DIR=out, VERIF_PROCS="4")
            p = subprocess.run(["/verif/check", pid], stdout=subprocess.PIPE, stderr=subprocess.STDOUT, universal_newlines=True, env=env, timeout=3600)
            if p.returncode == 1:
                res["detected"][pid] = True
                break
            if p.returncode != 0:
                res["detected"][pid] = "exit %d" % p.returncode
        return res
    finally:
        sh("git -C /repo worktree remove --force %s" % wt)
        sh("rm -rf %s %s" % (wt, out))


def main():
    args = sys.argv[1:]
    checks, only, jobs = ["C06", "C07"], None, 4
    while args:
        a = args.pop(0)
        if a == "--checks":
            checks = args.pop(0).split(",")
        elif a == "--only":
            only = args.pop(0)
        elif a == "--jobs":
            jobs = int(args.pop(0))
    vs = [v for v in validators() if not only or only in "%s:%s.%s" % v[:3]]
    survivors = []
    with concurrent.futures.ThreadPoolExecutor(jobs) as ex:
        for res in ex.map(one, [(v, checks) for v in vs]):
            killed_by_tests = "failed" in res.get("tests", "") or "error" in res.get("tests", "")
            print("%-55s tests=%-12s detected=%s" % (res["mutant"], res.get("tests"), "by the baseline tests" if killed_by_tests else (res["detected"] or "NO")), flush=True)
            if not killed_by_tests and not any(v is True for v in res["detected"].values()):
                survivors.append(res["mutant"])
    print("\n%d validators, %d survive both the baseline tests and %s: %s" % (len(vs), len(survivors), "+".join(checks), survivors))


if __name__ == "__main__":
    main()
