#!/usr/bin/env python3
"""Rewrites /verif/seeded/REPORT.md from the meta.json files alone (no check is run): `detected_by` is what the last campaign run
(tools/run_campaign.py) or, for changes kept since, the confirmation at keep time (tools/try_seed.sh) recorded."""
import json, os
SEEDED = "/verif/seeded"
rows, missed, unclaimed = [], [], []
for name in sorted(os.listdir(SEEDED)):
    mp = os.path.join(SEEDED, name, "meta.json")
    if name == "neutralised" or not os.path.exists(mp):
        continue
    m = json.load(open(mp))
    det = ", ".join("%s (%s)" % kv for kv in sorted((m.get("detected_by") or {}).items()))
    first = ""
    lc = m.get("last_campaign") or {}
    for p, c in (lc.get("checks") or {}).items():
        if c.get("exit") == 1:
            first = c.get("first_report", "")
            break
    if not det:
        if m.get("not_claimed"):
            det, first = "not detected - deliberately not claimed", m["not_claimed"]
            unclaimed.append(name)
        else:
            det = "**not detected**"
            missed.append(name)
    src = "campaign" if lc else "confirmed when kept"
    rows.append("| %s | %s | %s | %s | %s |" % (name, m.get("property"), (lc.get("baseline_tests_with_patch") or m.get("confirmed_by_me", {}).get("baseline_tests_with_patch", "")),
                                               det + ("" if "not detected" in det else " [%s]" % src), first.replace("|", "/")[:160 if "not claimed" not in det else 600]))
lines = ["# Seeded-change campaign", "",
         "Every change below lives in its own directory (`patch.diff`, `demo.py` where the author supplied one, `meta.json`).",
         "Each one was applied to a scratch worktree of /repo HEAD, the 90 baseline tests, the demo and the checks were run with",
         "`VERIF_REPO_ROOT=<worktree>`, and the worktree was removed afterwards.  `[campaign]`: result of the last `tools/run_campaign.py` run;",
         "`[confirmed when kept]`: result of `tools/try_seed.sh` when the change was kept (later waves).  `reintro-*` are the reverses of the",
         "`fix:` commits, `manual-*` were written by hand, all others by independent sub-agents that saw only the property text.", "",
         "| seeded change | property | baseline tests | detected by (tier) | first report |", "|---|---|---|---|---|"] + rows
lines += ["", "%d changes, %d detected, %d deliberately not claimed (%s), %d not detected%s."
          % (len(rows), len(rows) - len(missed) - len(unclaimed), len(unclaimed), ", ".join(unclaimed), len(missed), (": " + ", ".join(missed)) if missed else "")]
open(os.path.join(SEEDED, "REPORT.md"), "w").write("\n".join(lines) + "\n")
print(lines[-1])
