#!/usr/bin/env python3
"""Records the facts every shipped fixture converts to on /repo's current tree -> /verif/golden/c05_fixtures.json.
Run by hand after reviewing a change of the legacy readers; never run by a check."""
import hashlib, json, os, sys
sys.path.insert(0, "/verif")
os.chdir("/tmp")
from mc.core.runner import bind_repo, REPO
bind_repo()
from mc.checks import c05
out = {}
for fmt, rel in c05.fixtures():
    text = open(os.path.join(REPO, rel)).read()
    obj = c05.new(fmt)
    try:
        obj.loads(text)
    except Exception as exc:
        print("rejected:", rel, type(exc).__name__)
        continue
    out[rel] = {"sha256": hashlib.sha256(text.encode("utf-8")).hexdigest(), "facts": json.loads(json.dumps(c05.observe(fmt, obj)))}
json.dump(out, open("/verif/golden/c05_fixtures.json", "w"), indent=1, sort_keys=True)
print(len(out), "fixtures recorded")
