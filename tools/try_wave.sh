#!/bin/sh
# tools/try_wave.sh <wave number> [tier] [only-id]: tries every delivered change /tmp/seedout<w>/<ID>/<k>/ against its property's check.
# One line per change: <ID>/<k> tests=<..> demo=<with>/<without> check=<exit> ; details in /tmp/seedout<w>/<ID>/<k>/try.log
w=$1; tier=${2:-quick}; only=$3
mkdir -p /tmp/wt
for d in /tmp/seedout$w/${only:-C*}/[0-9]*; do
  [ -f "$d/patch.diff" ] || continue
  id=$(basename $(dirname "$d"))
  echo "$d $id"
done | xargs -P 5 -L 1 sh -c '
  d=$0; id=$1
  /verif/tools/try_seed.sh "$d" '"$tier"' "$id" > "$d/try.log" 2>&1
  t=$(grep -A1 "baseline tests" "$d/try.log" | tail -1 | cut -c1-40)
  a=$(grep "demo with patch" "$d/try.log" | sed "s/.*exit //")
  b=$(grep "demo on /repo" "$d/try.log" | sed "s/.*exit //")
  c=$(grep -E "exit [0-9]" "$d/try.log" | grep -v demo | tail -1 | sed "s/.*-> //")
  echo "$id/$(basename $d) tests=[$t] demo=$a/$b check=[$c] :: $(head -1 $d/notes.md | cut -c1-150)"
'
