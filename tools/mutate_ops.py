#!/usr/bin/env python3
"""Mechanical mutation pass over every comparison, boolean operator and `not` in productmd.

One mutant per site: < <-> <=, > <-> >=, == <-> !=, in <-> not in, is <-> is not, and <-> or, `not x` -> `x`.
For each mutant: scratch worktree of /repo HEAD (outside /repo and /verif), baseline tests (a failing test kills the mutant), then
the 20 quick checks, cheapest first, until one reports a violation.  Mutants that survive everything are listed: each is either an
equivalent mutant, code no property speaks about, or a gap.  /repo itself is never touched.

usage: tools/mutate_ops.py [--only file.py] [--jobs N] [--out file.json] [--sites i,j,k]
"""
import ast
import concurrent.futures
import glob
import json
import os
import re
import subprocess
import sys
import tempfile

ORDER = ["C12", "C17", "C04", "C16", "C18", "C06", "C13", "C14", "C15", "C11", "C07", "C08", "C01", "C20", "C02", "C10", "C03", "C19",
         "C05", "C09"]
SWAP = {"<": "<=", "<=": "<", ">": ">=", ">=": ">", "==": "!=", "!=": "==", "in": "not in", "not in": "in", "is": "is not",
        "is not": "is"}
OPTXT = {ast.Lt: "<", ast.LtE: "<=", ast.Gt: ">", ast.GtE: ">=", ast.Eq: "==", ast.NotEq: "!=", ast.In: "in", ast.NotIn: "not in",
         ast.Is: "is", ast.IsNot: "is not"}


def sh(cmd, **kw):
    return subprocess.run(cmd, shell=True, stdout=subprocess.PIPE, stderr=subprocess.STDOUT, universal_newlines=True, **kw)


def offsets(src):
    starts = [0]
    for line in src.split("\n"):
        starts.append(starts[-1] + len(line) + 1)
    return starts


def sites(kinds="ops"):
    out = []
    for f in sorted(glob.glob("/repo/productmd/*.py")):
        src = open(f).read()
        st = offsets(src)
        enc = src.encode("utf-8")

        def pos(line, col):                         # ast columns are UTF-8 byte offsets
            linestart = len(src[:st[line - 1]].encode("utf-8"))
            return len(enc[:linestart + col].decode("utf-8"))
        tree = ast.parse(src)
        funcs = [(n.lineno, n.end_lineno, n.name) for n in ast.walk(tree) if isinstance(n, (ast.FunctionDef, ast.ClassDef))]

        def where(line):
            inner = [x for x in funcs if x[0] <= line <= x[1]]
            return ".".join(x[2] for x in sorted(inner)) or "<module>"
        for node in ast.walk(tree):
            if kinds != "stmts" and isinstance(node, ast.Compare) and len(node.ops) == 1:
                a = pos(node.left.end_lineno, node.left.end_col_offset)
                b = pos(node.comparators[0].lineno, node.comparators[0].col_offset)
                old = OPTXT[type(node.ops[0])]
                gap = src[a:b]
                m = re.search(r"(?<![=!<>\w])%s(?![=\w])" % re.escape(old).replace(r"\ ", r"\s+"), gap)
                if not m:
                    continue
                out.append((os.path.basename(f), where(node.lineno), node.lineno, a + m.start(), a + m.end(), SWAP[old], "%s -> %s" % (old, SWAP[old])))
            elif kinds != "stmts" and isinstance(node, ast.BoolOp):
                a = pos(node.values[0].end_lineno, node.values[0].end_col_offset)
                b = pos(node.values[1].lineno, node.values[1].col_offset)
                old = "and" if isinstance(node.op, ast.And) else "or"
                new = "or" if old == "and" else "and"
                m = re.search(r"\b%s\b" % old, src[a:b])
                if m:
                    out.append((os.path.basename(f), where(node.lineno), node.lineno, a + m.start(), a + m.end(), new, "%s -> %s" % (old, new)))
            elif kinds == "stmts" and isinstance(node, ast.Expr) and isinstance(node.value, ast.Call) and isinstance(node.value.func, ast.Attribute) \
                    and node.value.func.attr == "validate":
                a = pos(node.lineno, node.col_offset)
                b = pos(node.end_lineno, node.end_col_offset)
                out.append((os.path.basename(f), where(node.lineno), node.lineno, a, b, "pass", "validate() call dropped"))
            elif kinds == "stmts" and isinstance(node, ast.Call) and isinstance(node.func, ast.Name) and node.func.id == "sorted" and node.args:
                a = pos(node.lineno, node.col_offset)
                b = pos(node.args[0].end_lineno, node.args[0].end_col_offset)
                e = pos(node.end_lineno, node.end_col_offset)
                inner = src[pos(node.args[0].lineno, node.args[0].col_offset):b]
                out.append((os.path.basename(f), where(node.lineno), node.lineno, a, e, "list(%s)" % inner, "sorted() dropped"))
            elif kinds == "stmts":
                continue
            elif isinstance(node, ast.UnaryOp) and isinstance(node.op, ast.Not):
                a = pos(node.lineno, node.col_offset)
                m = re.match(r"not\s+", src[a:])
                if m:
                    out.append((os.path.basename(f), where(node.lineno), node.lineno, a, a + m.end(), "", "not dropped"))
    return sorted(out, key=lambda s: (s[0], s[2], s[3]))


def one(args):
    idx, (fname, func, line, a, b, new, what) = args
    wt = tempfile.mkdtemp(prefix="mutop-wt-", dir="/tmp")
    out = tempfile.mkdtemp(prefix="mutop-out-", dir="/tmp")
    os.rmdir(wt)
    res = {"i": idx, "file": fname, "function": func, "line": line, "mutation": what, "killed_by": None}
    try:
        sh("git -C /repo worktree add -f %s HEAD" % wt)
        path = os.path.join(wt, "productmd", fname)
        src = open(path).read()
        res["source_line"] = src.split("\n")[line - 1].strip()[:140]
        open(path, "w").write(src[:a] + new + src[b:])
        if sh("/venv/bin/python -m py_compile %s" % path).returncode != 0:
            res["killed_by"] = "does not compile"
            return res
        r = sh("cd %s && PYTHONPATH=%s timeout 300 /venv/bin/python -m pytest -q -x -p no:cacheprovider tests 2>&1 | tail -1" % (wt, wt))
        if " passed" not in r.stdout or "failed" in r.stdout or "error" in r.stdout:
            res["killed_by"] = "baseline tests"
            return res
        for pid in (os.environ.get("MUT_CHECKS", "").split(",") if os.environ.get("MUT_CHECKS") else ORDER):
            env = dict(os.environ, VERIF_REPO_ROOT=wt, VERIF_OUT_DIR=out, VERIF_PROCS="4")
            try:
                p = subprocess.run(["/verif/check", pid], stdout=subprocess.PIPE, stderr=subprocess.STDOUT, universal_newlines=True, env=env,
                                   timeout=1800)
            except subprocess.TimeoutExpired:
                res["killed_by"] = pid + " (timeout)"
                return res
            if p.returncode == 1:
                res["killed_by"] = pid
                first = [l.strip() for l in p.stdout.splitlines() if l.startswith("  [")]
                res["report"] = (first or [""])[0][:200]
                return res
            if p.returncode != 0:
                res.setdefault("harness_errors", []).append(pid)
        return res
    finally:
        sh("git -C /repo worktree remove --force %s" % wt)
        sh("rm -rf %s %s" % (wt, out))


def main():
    args = sys.argv[1:]
    only, jobs, outp, pick, kinds = None, 4, "/tmp/mutate_ops.json", None, "ops"
    while args:
        a = args.pop(0)
        if a == "--only":
            only = args.pop(0)
        elif a == "--jobs":
            jobs = int(args.pop(0))
        elif a == "--out":
            outp = args.pop(0)
        elif a == "--sites":
            pick = [int(x) for x in args.pop(0).split(",")]
        elif a == "--kinds":
            kinds = args.pop(0)                      # ops (default) | stmts: dropped validate() calls and dropped sorted()
    ss = list(enumerate(sites(kinds)))
    ss = [s for s in ss if (not only or s[1][0] == only) and (pick is None or s[0] in pick)]
    results = []
    with concurrent.futures.ThreadPoolExecutor(jobs) as ex:
        for res in ex.map(one, ss):
            results.append(res)
            print("#%-3d %-15s %-40s L%-4d %-14s -> %s%s" % (res["i"], res["file"], res["function"][:40], res["line"], res["mutation"],
                                                          res["killed_by"] or "SURVIVES", (" harness-errors=%s" % res["harness_errors"]) if res.get("harness_errors") else ""),
                  flush=True)
            json.dump(results, open(outp, "w"), indent=1)
    surv = [r for r in results if not r["killed_by"]]
    print("\n%d mutants: %d killed by the baseline tests, %d by a check, %d survive" % (
        len(results), sum(1 for r in results if r["killed_by"] in ("baseline tests", "does not compile")),
        sum(1 for r in results if r["killed_by"] and r["killed_by"].startswith("C")), len(surv)))
    for r in surv:
        print("  #%d %s:%d %s  [%s]  %s" % (r["i"], r["file"], r["line"], r["function"], r["mutation"], r.get("source_line")))


if __name__ == "__main__":
    main()
